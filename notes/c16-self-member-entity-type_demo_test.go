package validate_test

import (
	"testing"

	cedar "github.com/cedar-policy/cedar-go"
	xast "github.com/cedar-policy/cedar-go/x/exp/ast"
	"github.com/cedar-policy/cedar-go/x/exp/schema"
	"github.com/cedar-policy/cedar-go/x/exp/schema/validate"
)

func TestSelfMemberEntityTypeTerminates(t *testing.T) {
	var s schema.Schema
	if err := s.UnmarshalCedar([]byte(`entity Group in [Group]; entity Document; entity User in [Group];
action view appliesTo { principal: [User, Group], resource: [Document] };`)); err != nil {
		t.Fatal(err)
	}
	rs, err := s.Resolve()
	if err != nil {
		t.Fatal(err)
	}
	var p cedar.Policy
	if err := p.UnmarshalCedar([]byte(`permit (principal is Group, action, resource) when { principal in Document::"d" };`)); err != nil {
		t.Fatal(err)
	}
	_ = validate.New(rs).Policy("p", (*xast.Policy)(p.AST()))
}
