#!/bin/bash
# first-contact.sh <verif-commit> <seeded-id>...: runs the quick check AS OF <verif-commit>
# against seeded changes and records in meta.json whether that older check caught them.
set -u
C="$1"; shift
W=/tmp/verif-old-$$
git -C /verif worktree add -q --detach "$W" "$C" || exit 2
for id in "$@"; do
  prop=$(python3 -c "import json;print(json.load(open('/verif/seeded/$id/meta.json'))['property'])")
  out=$(cd "$W" && VERIF_PATCH=/verif/seeded/$id/patch.diff VERIF_RACE_BUDGET_S=15 ./check "$prop" quick -no-evidence 2>&1); rc=$?
  python3 - "$id" "$C" "$rc" <<'PY'
import json,sys
sid,c,rc=sys.argv[1],sys.argv[2],int(sys.argv[3])
p=f'/verif/seeded/{sid}/meta.json'; m=json.load(open(p)); v=m.setdefault('verification',{})
v['first_contact']={'verif_commit':c,'exit':rc,'caught':rc==1}
if rc!=1 and v.get('caught_by_quick_check'):
    v['history']=f'missed by the check as of /verif commit {c} (exit {rc}, re-run from a worktree of that commit); caught after the check was strengthened'
json.dump(m,open(p,'w'),indent=1)
print(sid,'first contact at',c,'exit',rc)
PY
done
git -C /verif worktree remove --force "$W"
