#!/usr/bin/env python3
"""seeded-verify.py <source dir with patch.diff/meta.json/demo> <seeded id> [--skip-suite]
Confirms a seeded change independently in a scratch worktree of /repo:
  applies cleanly, builds, the existing suite passes, the demonstration fails with the change
  and passes without it; then runs the property's quick check against it (VERIF_PATCH, scratch
  copy only) and records everything in /verif/seeded/<id>/meta.json."""
import json, os, shutil, subprocess, sys, tempfile, time
src, sid = sys.argv[1], sys.argv[2]
skip_suite = '--skip-suite' in sys.argv
env = dict(os.environ, GOFLAGS='-mod=mod', GOPROXY='off', GOSUMDB='off', GOTOOLCHAIN='local')
dst = f'/verif/seeded/{sid}'
os.makedirs(dst, exist_ok=True)
if os.path.abspath(src) != os.path.abspath(dst):
    for f in os.listdir(src):
        shutil.copy(os.path.join(src, f), dst)
meta = json.load(open(f'{dst}/meta.json'))
prev = meta.get('verification', {})
prop = meta['property']
wt = tempfile.mkdtemp(prefix='verif-seedwt.', dir='/tmp')
os.rmdir(wt)
def run(cmd, cwd=None, timeout=3000):
    p = subprocess.run(cmd, shell=True, cwd=cwd, env=env, capture_output=True, text=True, timeout=timeout)
    return p.returncode, (p.stdout + p.stderr)
res = {}
try:
    rc, out = run(f'git -C /repo worktree add -q --detach {wt} HEAD')
    assert rc == 0, out
    rc, out = run(f'git apply {dst}/patch.diff', cwd=wt); res['applies'] = rc == 0
    assert rc == 0, out
    rc, out = run('go build ./...', cwd=wt); res['builds'] = rc == 0
    if not skip_suite:
        t = time.time(); rc, out = run('go test -vet=off -count=1 ./...', cwd=wt); res['suite_passes_with_change'] = rc == 0; res['suite_s'] = round(time.time() - t)
        if rc != 0: res['suite_output_tail'] = out[-1500:]
    demo = [f for f in os.listdir(dst) if f.endswith('_test.go') or f == 'main.go']
    copy_to = (meta.get('demo_copy_to') or './').split()[0]
    to = os.path.join(wt, copy_to)
    os.makedirs(to, exist_ok=True)
    for f in demo: shutil.copy(f'{dst}/{f}', to)
    cmd = meta['demo_cmd'].split('#')[0].strip()
    if cmd.startswith('cp ') and '&&' in cmd:
        cmd = cmd.split('&&', 1)[1].strip()   # the script has already copied the demonstration
    res['demo_cmd_run'] = cmd
    rc, out = run(cmd, cwd=wt)
    res['demo_fails_with_change'] = rc != 0 and any(k in out for k in ('FAIL', 'DATA RACE', 'panic:'))
    res['demo_output_with_change_tail'] = out[-600:]
    run(f'git apply -R {dst}/patch.diff', cwd=wt)
    rc, out = run(cmd, cwd=wt); res['demo_passes_without_change'] = rc == 0
    if rc != 0: res['demo_output_clean_tail'] = out[-600:]
finally:
    subprocess.run(f'git -C /repo worktree remove --force {wt}', shell=True)
# the check
t = time.time()
e2 = dict(env, VERIF_PATCH=f'{dst}/patch.diff', VERIF_RACE_BUDGET_S=os.environ.get('VERIF_RACE_BUDGET_S', '15'))
p = subprocess.run(f'/verif/check {prop} quick -no-evidence', shell=True, env=e2, capture_output=True, text=True)
kinds = sorted({l.strip() for l in p.stdout.splitlines() if l.strip().startswith('kind=')})
res['check_cmd'] = f'VERIF_PATCH=seeded/{sid}/patch.diff ./check {prop} quick'
res['check_exit'] = p.returncode
res['check_violations'] = kinds
res['check_s'] = round(time.time() - t)
res['caught_by_quick_check'] = p.returncode == 1
if skip_suite:
    for k in ('suite_passes_with_change', 'suite_s'):
        if k in prev: res[k] = prev[k]
    if 'caught_by_quick_check' in prev and not prev['caught_by_quick_check'] and res['caught_by_quick_check']:
        res['history'] = 'missed by the first version of the check (exit %s); caught after the check was strengthened' % prev.get('check_exit')
meta['verification'] = res
json.dump(meta, open(f'{dst}/meta.json', 'w'), indent=1)
print(sid, json.dumps({k: v for k, v in res.items() if 'tail' not in k}))
