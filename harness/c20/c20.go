// Package c20: policy containers behave as an id-keyed map over any history of
// operations.  DESIGN.md §4 (C20).
package c20

import (
	"bytes"
	"fmt"
	"hash/fnv"
	"maps"
	"sort"
	"strings"
	"unicode/utf8"

	cedar "github.com/cedar-policy/cedar-go"
	"github.com/cedar-policy/cedar-go/internal/verifsim"
	"github.com/cedar-policy/cedar-go/types"
	"github.com/cedar-policy/cedar-go/verifharness/core"
)

type Prop struct{}

func (Prop) ID() string     { return "C20" }
func (Prop) Level() string  { return "exploration" }
func (Prop) QuickRuns() int { return 2500 }
func (Prop) Rule() string {
	return "each run = one history of 1-30 container operations (add new / replacing, remove present / absent, get, Map()+mutate the copy, All() fully / with early break, collect-copy then mutate the original, MarshalCedar, JSON round trip replacing the live set, UnmarshalJSON of another set into the live non-empty set, replacing the other ids while an All() iteration is in progress, Cedar-text round trip replacing the live set, loading a generated document with a file name) over 9 ids (incl. ids that need JSON escaping) and a pool of 9 policies that a fixed panel of 6 requests tells apart, under tape-chosen map iteration orders; after EVERY step the set is compared with a plain map model (contents, return values, authorization on the panel, emission order). In addition all 4680 histories of length <= 4 over a reduced alphabet of 8 operations are enumerated in every check. Non-trivial iff the history contains >= 3 mutating operations and at least one round trip or load; distinct = distinct hash of the decoded operation sequence."
}
func (Prop) Assumptions() []string {
	return []string{
		"policies are compared through their canonical Cedar text (MarshalCedar), so a codec that changes a policy's text would be reported here",
		"after a failed load nothing is asserted about the receiver; the history continues on a fresh set",
		"separator bytes of PolicySet.MarshalCedar are not asserted (undocumented); the output must parse back to the model's policies in lexicographic id order",
	}
}
func (Prop) Components() (real, stub []string) {
	return []string{"cedar.PolicySet (Add/Remove/Get/Map/All/MarshalCedar/MarshalJSON/UnmarshalJSON)", "cedar.NewPolicySetFromBytes, NewPolicyListFromBytes, Policy codecs", "cedar.Authorize + internal/eval", "internal/parser, internal/json"},
		[]string{"the caller (operation history from the tape)", "map iteration order (verifsim.RangeMap)"}
}
func (Prop) Refine(v *core.Violation, t, s []uint32, exec func(t, s []uint32) (*core.Violation, *core.Run)) *core.Violation {
	return v
}

// ---------------------------------------------------------------------------------
// fixed universe

// the id universe: ids that sort differently as text and as numbers, and ids that need
// escaping in JSON (control characters, DEL, quotes, non-printable astral runes) - all valid
// Unicode, so a JSON round trip must preserve them
var ids = []cedar.PolicyID{"policy0", "policy1", "policy10", "policy2", "a", "Z", "ctl\x1f\a", "q\"uo\\te\x7f é日本", "\U000E0001tag\u2028"}

var poolText = []string{
	`permit (principal == User::"a", action, resource);`,
	`permit (principal == User::"b", action, resource);`,
	`forbid (principal, action == Action::"b", resource);`,
	`permit (principal, action, resource == Doc::"a");`,
	`permit (principal, action, resource) when { context.a };`,
	`forbid (principal == User::"c", action, resource) unless { context has b };`,
	`permit (principal in Group::"a", action, resource);`,
	`@id("x") @note("é") permit (principal, action, resource) when { 1 + "a" == 2 };`,
	`permit (principal, action in [Action::"a", Action::"c"], resource is Doc) when { {a: 1, b: [2, 3]}.b.contains(3) && resource has "na me" };`,
}

type poolPolicy struct {
	text  string // canonical text
	proto *cedar.Policy
}

var pool []poolPolicy

func canonText(p *cedar.Policy) string { return string(p.MarshalCedar()) }

func init() {
	for _, t := range poolText {
		var p cedar.Policy
		if err := p.UnmarshalCedar([]byte(t)); err != nil {
			panic(core.Machinery{Msg: "c20 pool policy does not parse: " + err.Error()})
		}
		pool = append(pool, poolPolicy{text: canonText(&p), proto: &p})
	}
}

func uid(t, id string) types.EntityUID {
	return types.NewEntityUID(types.EntityType(t), types.String(id))
}

var panelEntities = func() types.EntityMap {
	em := types.EntityMap{}
	add := func(u types.EntityUID, parents []types.EntityUID, attrs types.RecordMap) {
		em[u] = types.Entity{UID: u, Parents: types.NewEntityUIDSet(parents...), Attributes: types.NewRecord(attrs)}
	}
	add(uid("Group", "a"), nil, nil)
	add(uid("User", "a"), []types.EntityUID{uid("Group", "a")}, nil)
	add(uid("User", "b"), nil, nil)
	add(uid("User", "c"), []types.EntityUID{uid("Group", "a")}, nil)
	add(uid("Doc", "a"), nil, types.RecordMap{"na me": types.Long(1)})
	add(uid("Doc", "b"), nil, nil)
	return em
}()

var panel = []types.Request{
	{Principal: uid("User", "a"), Action: uid("Action", "a"), Resource: uid("Doc", "a"), Context: types.NewRecord(types.RecordMap{"a": types.True})},
	{Principal: uid("User", "b"), Action: uid("Action", "b"), Resource: uid("Doc", "b"), Context: types.NewRecord(types.RecordMap{"a": types.False, "b": types.Long(1)})},
	{Principal: uid("User", "c"), Action: uid("Action", "c"), Resource: uid("Doc", "a"), Context: types.NewRecord(nil)},
	{Principal: uid("User", "c"), Action: uid("Action", "a"), Resource: uid("Doc", "b"), Context: types.NewRecord(types.RecordMap{"b": types.True, "a": types.String("x")})},
	{Principal: uid("User", "zz"), Action: uid("Action", "a"), Resource: uid("Doc", "a"), Context: types.NewRecord(types.RecordMap{"a": types.True})},
	{Principal: uid("User", "b"), Action: uid("Action", "a"), Resource: uid("Doc", "b"), Context: types.NewRecord(types.RecordMap{"a": types.False})},
}

// ---------------------------------------------------------------------------------
// operations

type opKind int

const (
	opAdd opKind = iota
	opRemove
	opGet
	opMapMutate
	opAllFull
	opAllBreak
	opCollectThenMutate
	opMarshalCedar
	opRoundTripJSON
	opRoundTripCedar
	opLoadDoc
	opUnmarshalInPlace
	opReplaceDuringAll
	opRemoveDuringAll
	opReparseMember
	opSetFilenameMember
	nOps
)

var opNames = []string{"Add", "Remove", "Get", "Map+mutate", "All", "All+break", "Collect+mutate-original", "MarshalCedar", "JSON-round-trip", "Cedar-round-trip", "LoadDocument", "UnmarshalJSON-into-live-set", "All+replace-others-during-iteration", "All+remove-others-during-iteration", "re-parse-a-member-in-place", "SetFilename-on-a-member"}

type op struct {
	kind   opKind
	id     int   // index into ids
	pol    int   // index into pool
	doc    []int // pool indices (LoadDocument)
	layout []int
	fresh  bool // Add a freshly parsed copy instead of the shared pool object
	brk    int
}

func (o op) String() string {
	switch o.kind {
	case opAdd:
		return fmt.Sprintf("Add(%q, pool[%d] fresh=%v)", ids[o.id], o.pol, o.fresh)
	case opRemove, opGet, opSetFilenameMember:
		return fmt.Sprintf("%s(%q)", opNames[o.kind], ids[o.id])
	case opReparseMember:
		return fmt.Sprintf("%s(%q, pool[%d])", opNames[o.kind], ids[o.id], o.pol)
	case opLoadDoc:
		return fmt.Sprintf("LoadDocument(pool%v layout%v)", o.doc, o.layout)
	case opUnmarshalInPlace:
		return fmt.Sprintf("UnmarshalJSON-into-live-set(ids%v pool%v)", o.layout, o.doc)
	case opAllBreak:
		return fmt.Sprintf("All+break(after %d)", o.brk)
	case opMapMutate, opCollectThenMutate:
		return fmt.Sprintf("%s(%q, pool[%d])", opNames[o.kind], ids[o.id], o.pol)
	case opReplaceDuringAll:
		return fmt.Sprintf("%s(pool[%d])", opNames[o.kind], o.pol)
	}
	return opNames[o.kind]
}

func genOp(t *verifsim.Tape) op {
	o := op{}
	// weights: mutations are frequent
	switch x := t.Intn(25); {
	case x == 24:
		o.kind = opSetFilenameMember
		o.id = t.Intn(len(ids))
	case x == 23:
		o.kind = opReparseMember
		o.id = t.Intn(len(ids))
		o.pol = t.Intn(len(pool))
	case x == 22:
		o.kind = opRemoveDuringAll
	case x == 21:
		o.kind = opReplaceDuringAll
		o.pol = t.Intn(len(pool))
	case x == 20:
		o.kind = opUnmarshalInPlace
	case x < 6:
		o.kind = opAdd
	case x < 9:
		o.kind = opRemove
	case x < 10:
		o.kind = opGet
	case x < 11:
		o.kind = opMapMutate
	case x < 12:
		o.kind = opAllFull
	case x < 13:
		o.kind = opAllBreak
	case x < 14:
		o.kind = opCollectThenMutate
	case x < 15:
		o.kind = opMarshalCedar
	case x < 17:
		o.kind = opRoundTripJSON
	case x < 19:
		o.kind = opRoundTripCedar
	default:
		o.kind = opLoadDoc
	}
	switch o.kind {
	case opAdd, opMapMutate, opCollectThenMutate:
		o.id = t.Intn(len(ids))
		o.pol = t.Intn(len(pool))
		o.fresh = t.Intn(3) == 2
	case opRemove, opGet:
		o.id = t.Intn(len(ids))
	case opAllBreak:
		o.brk = t.Intn(3)
	case opUnmarshalInPlace:
		n := t.Intn(4)
		used := map[int]bool{}
		for i := 0; i < n; i++ {
			id := t.Intn(len(ids))
			if used[id] {
				continue
			}
			used[id] = true
			o.layout = append(o.layout, id)
			o.doc = append(o.doc, t.Intn(len(pool)))
		}
	case opLoadDoc:
		n := t.Intn(13)
		if t.Intn(8) == 7 {
			n = 60 + t.Intn(80) // a large document
		}
		for i := 0; i < n; i++ {
			o.doc = append(o.doc, t.Intn(len(pool)))
			o.layout = append(o.layout, t.Intn(len(layouts)))
		}
		o.layout = append(o.layout, t.Intn(len(layouts)))
	}
	return o
}

var layouts = []string{"\n", " ", "\n\n", "// comment é\n", "/* c\n */ ", "\r\n", "\t", ""}

// ---------------------------------------------------------------------------------
// model

type entry struct {
	text string
	ptr  *cedar.Policy // identity the set must return from Get; nil if unknown (after a reload)
	pos  *cedar.Position
}

type state struct {
	live  *cedar.PolicySet
	model map[cedar.PolicyID]*entry
	held  []heldOutput
	// an earlier loaded set the caller still holds, with the positions it had when it was
	// loaded: later loads (of the same or other documents, under other names) must not
	// change it
	prev     *cedar.PolicySet
	prevPos  map[cedar.PolicyID]cedar.Position
	prevText map[cedar.PolicyID]string
	loads    int
}

// heldOutput is a byte slice the set handed out earlier and the caller still holds: it is
// a snapshot, later operations must not change it, and scribbling on it must not change
// the set.
type heldOutput struct {
	what string
	out  []byte
	copy string
}

func newState() *state {
	return &state{live: cedar.NewPolicySet(), model: map[cedar.PolicyID]*entry{}}
}

func (st *state) sortedIDs() []cedar.PolicyID {
	out := make([]cedar.PolicyID, 0, len(st.model))
	for k := range st.model {
		out = append(out, k)
	}
	sort.Slice(out, func(i, j int) bool { return out[i] < out[j] })
	return out
}

func viol(kind, format string, a ...any) *core.Violation {
	return core.Violationf(kind, kind, format, a...)
}

func isPoolProto(p *cedar.Policy) bool {
	for i := range pool {
		if pool[i].proto == p {
			return true
		}
	}
	return false
}

func freshPolicy(i int) *cedar.Policy {
	var p cedar.Policy
	if err := p.UnmarshalCedar([]byte(poolText[i])); err != nil {
		panic(core.Machinery{Msg: err.Error()})
	}
	return &p
}

type authRes struct {
	dec     types.Decision
	reasons string
	errors  string
}

func authorize(pi cedar.PolicyIterator, q types.Request) authRes {
	d, diag := cedar.Authorize(pi, panelEntities, q)
	var rs, es []string
	for _, r := range diag.Reasons {
		rs = append(rs, string(r.PolicyID))
	}
	for _, e := range diag.Errors {
		es = append(es, string(e.PolicyID)+":"+e.Message)
	}
	sort.Strings(rs)
	sort.Strings(es)
	return authRes{d, strings.Join(rs, ","), strings.Join(es, ",")}
}

// checkHeld verifies the marshalled bytes handed out at earlier steps and takes new ones.
func (st *state) checkHeld(step string) *core.Violation {
	for _, ho := range st.held {
		if string(ho.out) != ho.copy {
			return viol("output-aliased", "after %s: the bytes returned earlier by %s changed under the caller's hands:\n  now: %q\n  was: %q", step, ho.what, clipStr(string(ho.out)), clipStr(ho.copy))
		}
		for i := range ho.out {
			ho.out[i] = '#'
		}
	}
	st.held = st.held[:0]
	c := st.live.MarshalCedar()
	st.held = append(st.held, heldOutput{"PolicySet.MarshalCedar", c, string(c)})
	if j, err := st.live.MarshalJSON(); err == nil {
		st.held = append(st.held, heldOutput{"PolicySet.MarshalJSON", j, string(j)})
	}
	for _, id := range st.sortedIDs() {
		if p := st.live.Get(id); p != nil {
			o := p.MarshalCedar()
			st.held = append(st.held, heldOutput{"Policy.MarshalCedar of " + string(id), o, string(o)})
		}
	}
	// marshalling OTHER objects must not disturb the bytes already handed out
	other := cedar.NewPolicySet()
	other.Add("other", pool[len(st.model)%len(pool)].proto)
	other.Add("other2", pool[(len(st.model)+3)%len(pool)].proto)
	_ = other.MarshalCedar()
	_, _ = other.MarshalJSON()
	_ = pool[(len(st.model)+5)%len(pool)].proto.MarshalCedar()
	for _, ho := range st.held {
		if string(ho.out) != ho.copy {
			return viol("output-aliased", "after %s: %s was overwritten by a later marshalling call on another object:\n  now: %q\n  was: %q", step, ho.what, clipStr(string(ho.out)), clipStr(ho.copy))
		}
	}
	return nil
}

func clipStr(s string) string {
	if len(s) > 300 {
		return s[:300] + "…"
	}
	return s
}

// check compares the live set with the model after a step.
func (st *state) check(step string) *core.Violation {
	if v := st.checkHeld(step); v != nil {
		return v
	}
	// contents via All()
	seen := map[cedar.PolicyID]bool{}
	for id, p := range st.live.All() {
		if seen[id] {
			return viol("all-duplicate-id", "after %s: All() yields id %q twice", step, id)
		}
		seen[id] = true
		e, ok := st.model[id]
		if !ok {
			return viol("contents-extra", "after %s: the set contains %q which the map model does not", step, id)
		}
		if p == nil {
			return viol("contents-nil", "after %s: All() yields a nil policy for %q", step, id)
		}
		if canonText(p) != e.text {
			return viol("contents-wrong-policy", "after %s: id %q holds %q, the model holds %q", step, id, canonText(p), e.text)
		}
		if e.ptr != nil && p != e.ptr {
			return viol("contents-wrong-identity", "after %s: id %q is not the policy object that was added", step, id)
		}
	}
	for _, id := range st.sortedIDs() {
		if !seen[id] {
			return viol("contents-missing", "after %s: the map model contains %q, the set does not", step, id)
		}
	}
	// Get
	for _, id := range ids {
		p := st.live.Get(id)
		e, ok := st.model[id]
		switch {
		case !ok && p != nil:
			return viol("get-wrong", "after %s: Get(%q) returns a policy, the model has none", step, id)
		case ok && p == nil:
			return viol("get-wrong", "after %s: Get(%q) returns nil, the model has %q", step, id, e.text)
		case ok && e.ptr != nil && p != e.ptr:
			return viol("get-wrong", "after %s: Get(%q) does not return the object that was added", step, id)
		case ok && canonText(p) != e.text:
			return viol("get-wrong", "after %s: Get(%q) returns %q, the model has %q", step, id, canonText(p), e.text)
		}
	}
	// authorization depends only on the contents
	ref := cedar.PolicyMap{}
	for id, e := range st.model {
		if e.ptr != nil {
			ref[id] = e.ptr
		} else {
			var p cedar.Policy
			if err := p.UnmarshalCedar([]byte(e.text)); err != nil {
				panic(core.Machinery{Msg: "model text does not parse: " + err.Error()})
			}
			ref[id] = &p
		}
	}
	for qi, q := range panel {
		got := authorize(st.live, q)
		want := authorize(ref, q)
		if got != want {
			return viol("authorize-differs", "after %s: request %d: the set gives %v reasons=[%s] errors=[%s], a map with the model's contents gives %v reasons=[%s] errors=[%s]", step, qi, got.dec, got.reasons, got.errors, want.dec, want.reasons, want.errors)
		}
		got2 := authorize2(st.live, q)
		if got2 != got {
			return viol("isauthorized-differs", "after %s: request %d: PolicySet.IsAuthorized disagrees with Authorize", step, qi)
		}
	}
	// a set loaded earlier and still held by the caller is untouched by everything since
	if st.prev != nil {
		n := 0
		for k, p := range st.prev.All() {
			n++
			if p.Position() != st.prevPos[k] || canonText(p) != st.prevText[k] {
				return viol("earlier-set-changed", "after %s: policy %q of a set loaded earlier (and not touched since) now reports position %+v / text %q; when it was loaded: %+v / %q", step, k, p.Position(), canonText(p), st.prevPos[k], st.prevText[k])
			}
		}
		if n != len(st.prevPos) {
			return viol("earlier-set-changed", "after %s: a set loaded earlier now holds %d policies, it held %d", step, n, len(st.prevPos))
		}
	}
	// positions (known after a load)
	for _, id := range st.sortedIDs() {
		e := st.model[id]
		if e.pos != nil {
			if got := st.live.Get(id).Position(); got != *e.pos {
				return viol("position-wrong", "after %s: %q reports position %+v, expected %+v", step, id, got, *e.pos)
			}
		}
	}
	return nil
}

func authorize2(ps *cedar.PolicySet, q types.Request) authRes {
	d, diag := ps.IsAuthorized(panelEntities, q)
	var rs, es []string
	for _, r := range diag.Reasons {
		rs = append(rs, string(r.PolicyID))
	}
	for _, e := range diag.Errors {
		es = append(es, string(e.PolicyID)+":"+e.Message)
	}
	sort.Strings(rs)
	sort.Strings(es)
	return authRes{d, strings.Join(rs, ","), strings.Join(es, ",")}
}

// checkEmission: MarshalCedar must parse back to the model's policies in lexicographic id order.
func (st *state) checkEmission(step string) ([]byte, *core.Violation) {
	out := st.live.MarshalCedar()
	list, err := cedar.NewPolicyListFromBytes("", out)
	if err != nil {
		return out, viol("marshal-unparseable", "after %s: MarshalCedar output does not parse: %v\n%s", step, err, out)
	}
	want := st.sortedIDs()
	if len(list) != len(want) {
		return out, viol("marshal-count", "after %s: MarshalCedar emitted %d policies, the model holds %d", step, len(list), len(want))
	}
	for i, id := range want {
		if canonText(list[i]) != st.model[id].text {
			return out, viol("marshal-order", "after %s: policy %d of the MarshalCedar output is %q; in lexicographic id order %v it should be %q (%q)", step, i, canonText(list[i]), want, id, st.model[id].text)
		}
	}
	return out, nil
}

func modelPosition(data []byte, off int) (line, col int) {
	line = 1
	last := 0
	for i := 0; i < off && i < len(data); i++ {
		if data[i] == '\n' {
			line++
			last = i + 1
		}
	}
	col = 1 + utf8.RuneCount(data[last:off])
	return
}

// apply executes one operation on the live set and on the model, checking return values.
func (st *state) apply(o op, r *core.Run) *core.Violation {
	id := ids[o.id]
	switch o.kind {
	case opAdd:
		p := pool[o.pol].proto
		var pos *cedar.Position
		if o.fresh {
			p = freshPolicy(o.pol)
			if (o.pol+o.id)%2 == 0 {
				// a policy that carries a source identity: every such policy claims the same
				// file and the same position (as the first statement of two versions of one
				// file does), so a replacement differs from what it replaces only in content
				p.SetFilename("renamed.cedar")
				pos = &cedar.Position{Filename: "renamed.cedar", Offset: 0, Line: 1, Column: 1}
				if old := st.model[id]; old != nil && old.pos != nil && *old.pos == *pos && old.text != pool[o.pol].text {
					r.Count("reach.add_replaces_same_named_position")
				}
			}
		}
		_, existed := st.model[id]
		got := st.live.Add(id, p)
		if got != !existed {
			return viol("add-return", "Add(%q) returned %v, the id %s in the model", id, got, map[bool]string{true: "existed", false: "did not exist"}[existed])
		}
		st.model[id] = &entry{text: pool[o.pol].text, ptr: p, pos: pos}
	case opRemove:
		_, existed := st.model[id]
		got := st.live.Remove(id)
		if got != existed {
			return viol("remove-return", "Remove(%q) returned %v, model says existed=%v", id, got, existed)
		}
		delete(st.model, id)
	case opGet:
		// covered by check()
	case opMapMutate:
		m := st.live.Map()
		if len(m) != len(st.model) {
			return viol("map-size", "Map() has %d entries, the model %d", len(m), len(st.model))
		}
		for k, p := range m {
			if e, ok := st.model[k]; !ok || canonText(p) != e.text {
				return viol("map-contents", "Map() entry %q does not match the model", k)
			}
		}
		// mutate the copy in every way; the set must not notice
		m[id] = pool[o.pol].proto
		for _, k := range st.sortedIDs() {
			if k != id {
				delete(m, k)
				break
			}
		}
		m["intruder"] = pool[0].proto
	case opAllFull:
		n := 0
		for range st.live.All() {
			n++
		}
		if n != len(st.model) {
			return viol("all-count", "All() yielded %d policies, the model holds %d", n, len(st.model))
		}
	case opAllBreak:
		n := 0
		for k := range st.live.All() {
			if _, ok := st.model[k]; !ok {
				return viol("contents-extra", "All() yields %q which the model does not hold", k)
			}
			if n == o.brk {
				break
			}
			n++
		}
	case opCollectThenMutate:
		cp := maps.Collect(st.live.All())
		before := map[cedar.PolicyID]string{}
		for k, p := range cp {
			before[k] = canonText(p)
		}
		// mutate the original
		p := pool[o.pol].proto
		st.live.Add(id, p)
		st.model[id] = &entry{text: pool[o.pol].text, ptr: p}
		for _, k := range st.sortedIDs() {
			if k != id {
				st.live.Remove(k)
				delete(st.model, k)
				break
			}
		}
		if len(cp) != len(before) {
			return viol("copy-aliased", "a collected copy changed size after the original was mutated")
		}
		for k, p := range cp {
			if canonText(p) != before[k] {
				return viol("copy-aliased", "a collected copy changed after the original was mutated")
			}
		}
	case opMarshalCedar:
		if _, v := st.checkEmission("MarshalCedar"); v != nil {
			return v
		}
		r.Count("reach.marshal_cedar_checked")
	case opRoundTripJSON:
		b, err := st.live.MarshalJSON()
		if err != nil {
			return viol("json-marshal-error", "MarshalJSON failed: %v", err)
		}
		var ps cedar.PolicySet
		if err := ps.UnmarshalJSON(b); err != nil {
			return viol("json-unmarshal-error", "UnmarshalJSON of the set's own MarshalJSON output failed: %v\n%s", err, b)
		}
		st.live = &ps
		for _, e := range st.model {
			e.ptr = nil
			e.pos = nil
		}
		r.Count("reach.json_round_trip")
	case opRoundTripCedar:
		out, v := st.checkEmission("Cedar-round-trip")
		if v != nil {
			return v
		}
		ps, err := cedar.NewPolicySetFromBytes("rt.cedar", out)
		if err != nil {
			return viol("marshal-unparseable", "NewPolicySetFromBytes of MarshalCedar output failed: %v", err)
		}
		st.live = ps
		nm := map[cedar.PolicyID]*entry{}
		for i, old := range st.sortedIDs() {
			nm[cedar.PolicyID(fmt.Sprintf("policy%d", i))] = &entry{text: st.model[old].text}
		}
		st.model = nm
		// file name in every position
		for k, p := range ps.All() {
			if p.Position().Filename != "rt.cedar" {
				return viol("filename-missing", "policy %q loaded from rt.cedar reports position %+v", k, p.Position())
			}
		}
		r.Count("reach.cedar_round_trip")
	case opReplaceDuringAll:
		// like ranging over a plain map: a value replaced before the iteration reaches its
		// key is yielded as the NEW value; removed keys are not yielded
		first := true
		for k, p := range st.live.All() {
			e, ok := st.model[k]
			if !ok {
				return viol("contents-extra", "All() yields %q which the model does not hold (during iteration)", k)
			}
			if e.ptr != nil && p != e.ptr {
				return viol("all-stale-value", "All() yields a stale policy for %q: it was replaced before the iteration reached it", k)
			}
			if canonText(p) != e.text {
				return viol("all-stale-value", "All() yields %q for %q, the set holds %q since it was replaced during the iteration", canonText(p), k, e.text)
			}
			if first {
				first = false
				np := freshPolicy(o.pol)
				for _, other := range st.sortedIDs() {
					if other != k {
						st.live.Add(other, np)
						st.model[other] = &entry{text: pool[o.pol].text, ptr: np}
					}
				}
			}
		}
		r.Count("reach.replace_during_iteration")
	case opReparseMember:
		// the owner of a policy object may overwrite it in place; the set holds the object
		// (never the harness' shared pool objects: other steps add them again unchanged)
		if p := st.live.Get(id); p != nil && !isPoolProto(p) {
			if err := p.UnmarshalCedar([]byte(poolText[o.pol])); err != nil {
				return viol("reparse-error", "re-parsing a member policy failed: %v", err)
			}
			e := st.model[id]
			if e == nil {
				return viol("get-wrong", "Get(%q) returns a policy, the model has none", id)
			}
			if e.ptr == nil {
				e.ptr = p // identity was unknown after a reload; it is this object now
			}
			// the same object may be registered under several ids: all of them change
			for _, other := range st.model {
				if other.ptr == p {
					other.text, other.pos = pool[o.pol].text, nil
				}
			}
			r.Count("reach.member_reparsed_in_place")
		}
	case opSetFilenameMember:
		if p := st.live.Get(id); p != nil && !isPoolProto(p) {
			p.SetFilename("renamed.cedar")
			if e := st.model[id]; e != nil {
				if e.ptr == nil {
					e.ptr = p
				}
				for _, other := range st.model {
					if other.ptr == p && other.pos != nil {
						np := *other.pos
						np.Filename = "renamed.cedar"
						other.pos = &np
					}
				}
				if got := p.Position().Filename; got != "renamed.cedar" {
					return viol("filename-missing", "SetFilename on %q did not take effect: %q", id, got)
				}
			}
			r.Count("reach.member_renamed")
		}
	case opRemoveDuringAll:
		// like ranging over a plain map: an entry removed before the iteration reaches it
		// is never produced
		first := true
		removed := map[cedar.PolicyID]bool{}
		for k := range st.live.All() {
			if removed[k] {
				return viol("all-yields-removed", "All() yields %q although it was removed earlier in the same iteration (%d removals so far)", k, len(removed))
			}
			if _, ok := st.model[k]; !ok {
				return viol("contents-extra", "All() yields %q which the model does not hold (during iteration)", k)
			}
			if first {
				first = false
				for _, other := range st.sortedIDs() {
					if other != k {
						st.live.Remove(other)
						delete(st.model, other)
						removed[other] = true
					}
				}
			}
		}
		r.Count("reach.remove_during_iteration")
		if len(removed) >= 16 {
			r.Count("reach.remove_during_iteration_ge_16")
		}
	case opUnmarshalInPlace:
		// decode another set's JSON into the live, possibly non-empty set: afterwards the set
		// holds exactly the decoded document (the receiver is replaced, as a freshly decoded
		// set would be)
		tmp := cedar.NewPolicySet()
		nm := map[cedar.PolicyID]*entry{}
		for i, pi := range o.doc {
			tmp.Add(ids[o.layout[i]], pool[pi].proto)
			nm[ids[o.layout[i]]] = &entry{text: pool[pi].text}
		}
		b, err := tmp.MarshalJSON()
		if err != nil {
			return viol("json-marshal-error", "MarshalJSON failed: %v", err)
		}
		if err := st.live.UnmarshalJSON(b); err != nil {
			return viol("json-unmarshal-error", "UnmarshalJSON failed: %v\n%s", err, b)
		}
		st.model = nm
		r.Count("reach.unmarshal_into_live_set")
	case opLoadDoc:
		var buf bytes.Buffer
		var starts []int
		for i, pi := range o.doc {
			buf.WriteString(layouts[o.layout[i]])
			starts = append(starts, buf.Len())
			buf.WriteString(poolText[pi])
		}
		buf.WriteString(layouts[o.layout[len(o.doc)]])
		data := buf.Bytes()
		st.loads++
		// file names are opaque strings to the library: whatever was given is what positions report
		fname := fmt.Sprintf([]string{"doc%d.cedar", "./doc%d.cedar", "policies//doc%d.cedar", "a/../doc%d.cedar", "dir%d/", "C:\\pol\\doc%d.cedar", " doc %d .cedar", "doc%d.cedar/."}[(st.loads+len(o.doc))%8], st.loads)
		ps, err := cedar.NewPolicySetFromBytes(fname, data)
		if err != nil {
			return viol("load-error", "loading a valid generated document failed: %v\n%s", err, data)
		}
		st.live = ps
		st.model = map[cedar.PolicyID]*entry{}
		for i, pi := range o.doc {
			line, col := modelPosition(data, starts[i])
			st.model[cedar.PolicyID(fmt.Sprintf("policy%d", i))] = &entry{text: pool[pi].text, pos: &cedar.Position{Filename: fname, Offset: starts[i], Line: line, Column: col}}
		}
		// the same bytes loaded once more under another name give an independent set
		if twin, err := cedar.NewPolicySetFromBytes("twin-of-"+fname, data); err == nil && st.prev == nil {
			st.prev = twin
			st.prevPos = map[cedar.PolicyID]cedar.Position{}
			st.prevText = map[cedar.PolicyID]string{}
			for k, p := range twin.All() {
				st.prevPos[k] = p.Position()
				st.prevText[k] = canonText(p)
			}
		}
		// diagnostics carry the file name and the statement's position
		for _, q := range panel {
			_, diag := cedar.Authorize(ps, panelEntities, q)
			for _, x := range diag.Reasons {
				if e := st.model[x.PolicyID]; e == nil || x.Position != *e.pos {
					return viol("diagnostic-position", "reason for %q reports %+v after loading %s", x.PolicyID, x.Position, fname)
				}
			}
			for _, x := range diag.Errors {
				if e := st.model[x.PolicyID]; e == nil || x.Position != *e.pos {
					return viol("diagnostic-position", "error for %q reports %+v after loading %s", x.PolicyID, x.Position, fname)
				}
			}
		}
		if len(o.doc) >= 11 {
			r.Count("reach.loaded_document_ge_11_policies")
		}
		r.Count("reach.document_loaded")
	}
	return nil
}

func runHistory(ops []op, r *core.Run) *core.Violation {
	st := newState()
	for i, o := range ops {
		r.Sim.Budget(30_000_000) // per step
		step := fmt.Sprintf("step %d %s", i+1, o)
		r.Logf("%s", step)
		if v := st.apply(o, r); v != nil {
			v.Msg = step + ": " + v.Msg
			return v
		}
		if v := st.check(step); v != nil {
			return v
		}
	}
	// final emission check
	if _, v := st.checkEmission("the last step"); v != nil {
		return v
	}
	return nil
}

func (p Prop) Run(r *core.Run) *core.Violation {
	maxSteps := 30
	if r.Tier == "thorough" {
		maxSteps = 60
	}
	var ops []op
	mut, rt := 0, 0
	h := fnv.New64a()
	for i := 0; i < maxSteps; i++ {
		// "one more step?" is drawn before every step (0 = stop), so that deleting a step
		// from the tape deletes one contiguous block and shrinking is not stuck on a length
		// that was fixed up front
		if i > 0 && r.T.Intn(18) == 0 {
			break
		}
		o := genOp(r.T)
		ops = append(ops, o)
		fmt.Fprint(h, o.String(), ";")
		switch o.kind {
		case opAdd, opRemove, opCollectThenMutate, opReplaceDuringAll, opRemoveDuringAll:
			mut++
		case opRoundTripJSON, opRoundTripCedar, opLoadDoc, opUnmarshalInPlace:
			rt++
		}
	}
	r.Sim.OrderMode = verifsim.OrderTape
	r.Sim.Activate()
	defer r.Sim.Deactivate()
	if mut >= 3 && rt >= 1 {
		r.Nontrivial(h.Sum64())
	}
	if r.T.Pos()%37 == 0 || r.Tracing {
		r.Quiet(func() {
			var s []string
			for _, o := range ops {
				s = append(s, o.String())
			}
			r.Sample(map[string]any{"history": s})
		})
	}
	r.Obs(h.Sum64())
	return runHistory(ops, r)
}

// Exhaustive enumerates every history of length <= 4 over a reduced alphabet.
func (p Prop) Exhaustive(tier string, report func(string, uint64), fail func(*core.Violation, string)) {
	alphabet := []op{
		{kind: opAdd, id: 4, pol: 0},
		{kind: opAdd, id: 4, pol: 2, fresh: true},
		{kind: opAdd, id: 0, pol: 4},
		{kind: opRemove, id: 4},
		{kind: opRemove, id: 0},
		{kind: opRoundTripJSON},
		{kind: opRoundTripCedar},
		{kind: opUnmarshalInPlace, doc: []int{1}, layout: []int{0}},
	}
	maxLen := 4
	if tier == "thorough" {
		maxLen = 5
	}
	var count uint64
	var failed bool
	sim := verifsim.NewSim(verifsim.NewTape(1), verifsim.NewTape(2))
	sim.OrderMode = verifsim.OrderReverse
	sim.Activate()
	defer sim.Deactivate()
	dummy := &core.Run{Sim: sim, T: sim.T, S: sim.S}
	var rec func(prefix []op)
	rec = func(prefix []op) {
		if len(prefix) > 0 {
			count++
			sim.Steps = 0 // the step budget is per history
			if v := runHistory(prefix, dummy); v != nil && !failed {
				failed = true
				var s []string
				for _, o := range prefix {
					s = append(s, o.String())
				}
				fail(v, "enumerated history: "+strings.Join(s, "; "))
			}
		}
		if len(prefix) == maxLen {
			return
		}
		for _, o := range alphabet {
			rec(append(append([]op(nil), prefix...), o))
		}
	}
	rec(nil)
	report(fmt.Sprintf("histories of length <= %d over 8 operations", maxLen)+" (add, replace, add other id, remove x2, JSON round trip, Cedar round trip, UnmarshalJSON into the live set)", count)
}
