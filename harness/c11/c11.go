// Package c11: value equality, sets and records obey their laws; values are immutable
// under any history of constructor-input / accessor-output mutations.  DESIGN.md §4 (C11).
//
// This is the thinnest application of the technique family in this repository: there are
// no fault kinds on this surface; the simulated dimensions are the history of caller
// mutations and the map iteration order.
package c11

import (
	"encoding/json"
	"fmt"
	"hash/fnv"
	"sort"
	"strings"

	cedar "github.com/cedar-policy/cedar-go"
	"github.com/cedar-policy/cedar-go/internal/verifsim"
	"github.com/cedar-policy/cedar-go/types"
	"github.com/cedar-policy/cedar-go/verifharness/core"
	xast "github.com/cedar-policy/cedar-go/x/exp/ast"
	xeval "github.com/cedar-policy/cedar-go/x/exp/eval"
)

type Prop struct{}

func (Prop) ID() string     { return "C11" }
func (Prop) Level() string  { return "exploration" }
func (Prop) QuickRuns() int { return 2500 }
func (Prop) Rule() string {
	return "each run = one history of 3-24 steps over a heap of <= 8 live values and the caller-owned buffers they were built from: NewSet / NewRecord / NewEntityUIDSet from a buffer, overwrite / append / reverse / delete in a buffer after use, Slice() / Map() followed by mutation of the result, All / Keys / Values / Iterate with early stop, JSON and Cedar-text round trip of a live value, nesting a live value into a new one; members come from a universe built to collide in the internal hash (true / 1 / decimal 0.0001 / 1ms / datetime epoch+1ms, neighbouring longs, uids with coinciding type+id concatenation, sets with equal member-hash sums). After EVERY step every live value is compared with a model built from universe indices (Len, Contains for every universe element, Get, pairwise Equal incl. reflexivity/symmetry/transitivity and across types, decode(encode(v)) == v, the ==, contains, containsAll, containsAny operators through the evaluator). In addition all 4680 sequences of <= 4 members of the 8-element collision family are enumerated in every check. Non-trivial iff the history contains >= 1 mutation of a buffer or accessor result after use and >= 2 composite values; distinct = distinct hash of the decoded history."
}
func (Prop) Assumptions() []string {
	return []string{
		"model equality of scalars = same universe index (the universe contains no two different spellings of one value)",
		"Cedar-text decoding of a value goes through the policy parser and the evaluator (there is no value parser in the API)",
	}
}
func (Prop) Components() (real, stub []string) {
	return []string{"types.Set, types.Record, scalar and extension values, types JSON codec", "internal/mapset (EntityUIDSet)", "internal/parser + internal/eval (Cedar-text round trip, operators)"},
		[]string{"the caller (history of buffer / accessor-result mutations from the tape)", "map iteration order (verifsim.RangeMap)"}
}
func (Prop) Refine(v *core.Violation, t, s []uint32, exec func(t, s []uint32) (*core.Violation, *core.Run)) *core.Violation {
	return v
}

// ---------------------------------------------------------------------------------
// universe

func must[T any](v T, err error) T {
	if err != nil {
		panic(core.Machinery{Msg: err.Error()})
	}
	return v
}

var scalars = []types.Value{
	types.True,                            // 0  hash 1
	types.Long(1),                         // 1  hash 1
	must(types.ParseDecimal("0.0001")),    // 2  hash 1
	must(types.ParseDuration("1ms")),      // 3  hash 1
	types.NewDatetimeFromMillis(1),        // 4  hash 1
	types.False,                           // 5
	types.Long(0),                         // 6
	types.Long(2),                         // 7
	types.Long(3),                         // 8
	types.Long(4),                         // 9
	types.String("a"),                     // 10
	types.String(""),                      // 11
	types.NewEntityUID("A", "bc"),         // 12
	types.NewEntityUID("Ab", "c"),         // 13
	types.NewEntityUID("User", "a"),       // 14
	must(types.ParseIPAddr("10.0.0.1")),   // 15
	must(types.ParseIPAddr("10.0.0.0/8")), // 16
	types.String("1"),                     // 17
	must(types.ParseDecimal("1.0")),       // 18
	types.NewDatetimeFromMillis(0),        // 19
	must(types.ParseDuration("0ms")),      // 20
	// other spellings / constructions of values above: equal to their canonical entry (see canon)
	must(types.ParseIPAddr("10.0.0.1/32")),                    // 21 = 15
	must(types.ParseDecimal("1.0000")),                        // 22 = 18
	must(types.NewDecimalFromInt(1)),                          // 23 = 18
	must(types.ParseDuration("1s")),                           // 24 (canonical for 25, 26)
	must(types.ParseDuration("1000ms")),                       // 25 = 24
	types.NewDurationFromMillis(1000),                         // 26 = 24
	must(types.ParseDatetime("1970-01-01T00:00:00.001Z")),     // 27 = 4
	must(types.ParseDatetime("1970-01-01T01:00:00.001+0100")), // 28 = 4
	must(types.ParseIPAddr("::1")),                            // 29 (canonical for 30)
	must(types.ParseIPAddr("0:0:0:0:0:0:0:1")),                // 30 = 29
	must(types.ParseDuration("1ms")),                          // 31 = 3
	must(types.NewDecimal(1, -4)),                             // 32 = 2
	// longs that are not exactly representable as float64, and the extremes
	types.Long(9007199254740993),     // 33
	types.Long(9007199254740992),     // 34
	types.Long(4611686018427387905),  // 35
	types.Long(4611686018427387906),  // 36
	types.Long(9223372036854775807),  // 37
	types.Long(-9223372036854775808), // 38
	types.Long(1234567890123456789),  // 39
	// a collision family at the top of the hash range (hash = 2^64-2 and 2^64-1): probing
	// wraps around zero there
	types.Long(-2),                      // 40
	must(types.ParseDuration("-2ms")),   // 41
	types.NewDatetimeFromMillis(-2),     // 42
	must(types.ParseDecimal("-0.0002")), // 43
	types.Long(-1),                      // 44
	must(types.ParseDuration("-1ms")),   // 45
	types.NewDatetimeFromMillis(-1),     // 46
	must(types.ParseDecimal("-0.0001")), // 47
	// instants outside the years 0000..9999 (expanded-year text forms)
	types.NewDatetimeFromMillis(253402300800000), // 48
	types.NewDatetimeFromMillis(-62198755200001), // 49
	types.NewDatetimeFromMillis(4102444800000),   // 50 (2100-01-01)
}

// canon maps a universe index to the index of the canonical spelling of the same value.
var canon = map[int]int{21: 15, 22: 18, 23: 18, 25: 24, 26: 24, 27: 4, 28: 4, 30: 29, 31: 3, 32: 2}

const family = 8 // scalars[0..4] collide; 5..7 neighbours

var familyIdx = []int{0, 1, 2, 3, 4, 5, 6, 7}

// negFamilyIdx: members whose hash is 2^64-2 / 2^64-1 (wrap-around probing), plus 0 and 1
var negFamilyIdx = []int{40, 41, 42, 43, 44, 45, 46, 6, 1}

// attribute names incl. ones that look like numbers (orderings that mix numeric and text
// comparison are not total: "1"/"01", "2" < "10" < "1a" < "2")
var keys = []types.String{"a", "b", "", "na me", "1", "01", "2", "10", "1a"}

// model value
type mval struct {
	kind   byte // 's' scalar, 'S' set, 'R' record
	idx    int
	elems  []*mval
	fields map[string]*mval
}

func mscalar(i int) *mval {
	if c, ok := canon[i]; ok {
		i = c
	}
	return &mval{kind: 's', idx: i}
}

func meq(a, b *mval) bool {
	if a.kind != b.kind {
		return false
	}
	switch a.kind {
	case 's':
		return a.idx == b.idx
	case 'S':
		if len(a.elems) != len(b.elems) {
			return false
		}
		for _, x := range a.elems {
			if !mcontains(b, x) {
				return false
			}
		}
		return true
	default:
		if len(a.fields) != len(b.fields) {
			return false
		}
		for k, x := range a.fields {
			y, ok := b.fields[k]
			if !ok || !meq(x, y) {
				return false
			}
		}
		return true
	}
}

func mcontains(s *mval, x *mval) bool {
	for _, e := range s.elems {
		if meq(e, x) {
			return true
		}
	}
	return false
}

func mset(elems []*mval) *mval {
	m := &mval{kind: 'S'}
	for _, e := range elems {
		if !mcontains(m, e) {
			m.elems = append(m.elems, e)
		}
	}
	return m
}

func (m *mval) String() string {
	switch m.kind {
	case 's':
		return fmt.Sprintf("u%d", m.idx)
	case 'S':
		var p []string
		for _, e := range m.elems {
			p = append(p, e.String())
		}
		sort.Strings(p)
		return "[" + strings.Join(p, ",") + "]"
	default:
		var ks []string
		for k := range m.fields {
			ks = append(ks, k)
		}
		sort.Strings(ks)
		var p []string
		for _, k := range ks {
			p = append(p, fmt.Sprintf("%q:%s", k, m.fields[k]))
		}
		return "{" + strings.Join(p, ",") + "}"
	}
}

// ---------------------------------------------------------------------------------
// heap

type item struct {
	v types.Value
	m *mval
}

type live struct {
	item
	// caller-owned buffers the value was built from / that were obtained from it
	sbuf []types.Value
	rbuf types.RecordMap
}

type uidSetEntry struct {
	s    types.EntityUIDSet
	want []types.EntityUID // distinct members
	buf  []types.EntityUID
}

type heap struct {
	vals  []*live
	usets []*uidSetEntry
	muts  int
	held  []heldOutput
}

// heldOutput is a byte slice handed out by the library (MarshalCedar / JSON) that the
// caller keeps across later calls; it must stay what it was.
type heldOutput struct {
	what string
	out  []byte // the slice as returned
	copy string // its content when it was returned
}

func viol(kind, format string, a ...any) *core.Violation {
	return core.Violationf(kind, kind, format, a...)
}

func (h *heap) pickItem(t *verifsim.Tape, depth int) item {
	// a universe scalar or a live value (nesting)
	if len(h.vals) > 0 && depth > 0 && t.Intn(4) == 3 {
		l := h.vals[t.Intn(len(h.vals))]
		return l.item
	}
	var i int
	switch t.Intn(4) {
	case 0, 1:
		i = familyIdx[t.Intn(len(familyIdx))]
	case 2:
		i = negFamilyIdx[t.Intn(len(negFamilyIdx))]
	default:
		i = t.Intn(len(scalars))
	}
	return item{scalars[i], mscalar(i)}
}

var uidUniverse = []types.EntityUID{types.NewEntityUID("A", "bc"), types.NewEntityUID("Ab", "c"), types.NewEntityUID("User", "a"), types.NewEntityUID("User", "b")}

func (h *heap) add(l *live) {
	if len(h.vals) >= 8 {
		h.vals = h.vals[1:]
	}
	h.vals = append(h.vals, l)
}

// step performs one tape-chosen operation; it returns a description.
func (h *heap) step(t *verifsim.Tape) (string, *core.Violation) {
	switch op := t.Intn(19); op {
	case 0, 1, 2: // NewSet from a buffer
		n := t.Intn(6)
		buf := make([]types.Value, 0, n+2)
		var ms []*mval
		for i := 0; i < n; i++ {
			it := h.pickItem(t, 1)
			buf = append(buf, it.v)
			ms = append(ms, it.m)
		}
		var s types.Set
		switch {
		case n == 0 && t.Intn(3) == 1:
			s = types.NewSet()
		case n == 0 && t.Intn(3) == 1:
			s = types.Set{} // the zero value is the empty set too
		default:
			s = types.NewSet(buf...)
		}
		h.add(&live{item: item{s, mset(ms)}, sbuf: buf})
		return fmt.Sprintf("NewSet(%d members) = %s", n, mset(ms)), nil
	case 3, 4: // NewRecord from a map
		n := t.Intn(6)
		rm := types.RecordMap{}
		m := &mval{kind: 'R', fields: map[string]*mval{}}
		for i := 0; i < n; i++ {
			k := keys[t.Intn(len(keys))]
			it := h.pickItem(t, 1)
			rm[k] = it.v
			m.fields[string(k)] = it.m
		}
		var r types.Record
		switch {
		case n == 0 && t.Intn(3) == 1:
			r = types.NewRecord(nil)
		case n == 0 && t.Intn(3) == 1:
			r = types.Record{} // the zero value is the empty record too
		default:
			r = types.NewRecord(rm)
		}
		h.add(&live{item: item{r, m}, rbuf: rm})
		return fmt.Sprintf("NewRecord(%d keys) = %s", n, m), nil
	case 5: // mutate a buffer that was used by a constructor
		if len(h.vals) == 0 {
			return "noop", nil
		}
		l := h.vals[t.Intn(len(h.vals))]
		h.muts++
		if l.sbuf != nil && len(l.sbuf) > 0 {
			switch t.Intn(3) {
			case 0:
				l.sbuf[t.Intn(len(l.sbuf))] = types.String("overwritten")
			case 1:
				for i, j := 0, len(l.sbuf)-1; i < j; i, j = i+1, j-1 {
					l.sbuf[i], l.sbuf[j] = l.sbuf[j], l.sbuf[i]
				}
			default:
				l.sbuf = append(l.sbuf[:0], types.Long(99))
			}
			return "mutate the slice a set was built from", nil
		}
		if l.rbuf != nil {
			l.rbuf["a"] = types.String("overwritten")
			l.rbuf["intruder"] = types.Long(7)
			delete(l.rbuf, "b")
			return "mutate the map a record was built from", nil
		}
		return "noop", nil
	case 6: // accessor result, then mutate it
		if len(h.vals) == 0 {
			return "noop", nil
		}
		l := h.vals[t.Intn(len(h.vals))]
		h.muts++
		switch x := l.v.(type) {
		case types.Set:
			sl := x.Slice()
			if len(sl) != len(l.m.elems) {
				return "", viol("slice-length", "Set.Slice() has %d elements, the set %s has %d", len(sl), l.m, len(l.m.elems))
			}
			for i := range sl {
				sl[i] = types.String("overwritten")
			}
			sl = append(sl, types.Long(5))
			_ = sl
			return "Set.Slice() then overwrite every element", nil
		case types.Record:
			mp := x.Map()
			if len(mp) != len(l.m.fields) {
				return "", viol("map-length", "Record.Map() has %d keys, the record %s has %d", len(mp), l.m, len(l.m.fields))
			}
			for k := range mp {
				mp[k] = types.String("overwritten")
			}
			if mp != nil {
				mp["intruder"] = types.Long(1)
			}
			return "Record.Map() then overwrite every value", nil
		}
		return "noop", nil
	case 7: // iterate with early stop
		if len(h.vals) == 0 {
			return "noop", nil
		}
		l := h.vals[t.Intn(len(h.vals))]
		stop := t.Intn(3)
		n := 0
		switch x := l.v.(type) {
		case types.Set:
			for range x.All() {
				if n == stop {
					break
				}
				n++
			}
			n = 0
			x.Iterate(func(types.Value) bool { n++; return n <= stop })
		case types.Record:
			for range x.All() {
				if n == stop {
					break
				}
				n++
			}
			for range x.Keys() {
				break
			}
			for range x.Values() {
				break
			}
			n = 0
			x.Iterate(func(types.String, types.Value) bool { n++; return n <= stop })
		}
		return fmt.Sprintf("iterate with early stop after %d", stop), nil
	case 8: // JSON round trip
		if len(h.vals) == 0 {
			return "noop", nil
		}
		l := h.vals[t.Intn(len(h.vals))]
		b, err := json.Marshal(l.v)
		if err != nil {
			return "", viol("json-encode-error", "json.Marshal(%s) failed: %v", l.m, err)
		}
		var out types.Value
		if err := types.UnmarshalJSON(b, &out); err != nil {
			return "", viol("json-decode-error", "decoding the JSON form of %s failed: %v (%s)", l.m, err, b)
		}
		h.add(&live{item: item{out, l.m}})
		return "JSON round trip of " + l.m.String(), nil
	case 14: // decode JSON into a variable that already holds a copy of a live value
		if len(h.vals) < 2 {
			return "noop", nil
		}
		dst := h.vals[t.Intn(len(h.vals))]
		src := h.vals[t.Intn(len(h.vals))]
		b, err := json.Marshal(src.v)
		if err != nil {
			return "", viol("json-encode-error", "json.Marshal(%s) failed: %v", src.m, err)
		}
		switch x := dst.v.(type) {
		case types.Record:
			if src.m.kind != 'R' {
				return "noop", nil
			}
			rv := x // a shallow copy, as every assignment of a Record is
			if err := rv.UnmarshalJSON(b); err != nil {
				return "", viol("json-decode-error", "Record.UnmarshalJSON(%s) failed: %v", b, err)
			}
			h.add(&live{item: item{rv, src.m}})
			return "decode the JSON of " + src.m.String() + " into a variable holding a copy of " + dst.m.String(), nil
		case types.Set:
			if src.m.kind != 'S' {
				return "noop", nil
			}
			sv := x
			if err := sv.UnmarshalJSON(b); err != nil {
				return "", viol("json-decode-error", "Set.UnmarshalJSON(%s) failed: %v", b, err)
			}
			h.add(&live{item: item{sv, src.m}})
			return "decode the JSON of " + src.m.String() + " into a variable holding a copy of " + dst.m.String(), nil
		}
		return "noop", nil
	case 9: // Cedar text round trip
		if len(h.vals) == 0 {
			return "noop", nil
		}
		l := h.vals[t.Intn(len(h.vals))]
		out, err := decodeCedar(l.v.MarshalCedar())
		if err != nil {
			return "", viol("cedar-decode-error", "decoding the Cedar text form of %s failed: %v (%s)", l.m, err, l.v.MarshalCedar())
		}
		h.add(&live{item: item{out, l.m}})
		return "Cedar text round trip of " + l.m.String(), nil
	case 16: // near twin: the same shape, one scalar leaf replaced by a different value with the same hash
		if len(h.vals) == 0 {
			return "noop", nil
		}
		l := h.vals[t.Intn(len(h.vals))]
		if l.m.kind == 's' {
			return "noop", nil
		}
		nm, changed := nearTwin(l.m, t)
		if !changed {
			return "noop", nil
		}
		h.add(&live{item: item{buildFromModel(nm, t), nm}})
		return "near twin of " + l.m.String() + ": " + nm.String() + " (one leaf swapped for a value with the same internal hash)", nil
	case 17: // decode a hand-written JSON array that repeats members (not something MarshalJSON emits)
		n := 2 + t.Intn(4)
		var ms []*mval
		var parts []string
		for i := 0; i < n; i++ {
			var it item
			if i > 0 && t.Intn(3) != 0 {
				k := t.Intn(i)
				it = item{nil, ms[k]}
				parts = append(parts, parts[k]) // a repeat
				ms = append(ms, ms[k])
				continue
			}
			it = h.pickItem(t, 0)
			b, err := json.Marshal(it.v)
			if err != nil {
				return "", viol("json-encode-error", "json.Marshal failed: %v", err)
			}
			parts = append(parts, string(b))
			ms = append(ms, it.m)
		}
		if t.Bool() {
			sort.Strings(parts) // repeats become neighbours
		}
		doc := "[" + strings.Join(parts, ",") + "]"
		var out types.Value
		if err := types.UnmarshalJSON([]byte(doc), &out); err != nil {
			return "", viol("json-decode-error", "decoding %s failed: %v", doc, err)
		}
		h.add(&live{item: item{out, mset(ms)}})
		return "decode the hand-written JSON array " + doc, nil
	case 15: // decode an entity uid from a caller-owned byte buffer, then reuse the buffer
		src := []int{12, 13, 14}[t.Intn(3)]
		want := scalars[src].(types.EntityUID)
		buf := append([]byte(nil), want.MarshalCedar()...)
		var u types.EntityUID
		var err error
		if t.Bool() {
			err = u.UnmarshalCedar(buf)
		} else {
			err = u.UnmarshalBinary(buf)
		}
		if err != nil {
			return "", viol("uid-decode-error", "decoding the text form %q of an entity uid failed: %v", buf, err)
		}
		h.add(&live{item: item{u, mscalar(src)}})
		held := types.NewSet(u, types.Long(1))
		for i := range buf {
			buf[i] = 'X' // the caller reuses its read buffer
		}
		h.muts++
		if !held.Contains(want) || !u.Equal(want) {
			return "", viol("uid-aliases-input", "an EntityUID decoded from a byte buffer changed when the caller overwrote the buffer: now %s, was %s", u, want)
		}
		return "decode " + mscalar(src).String() + " from a byte buffer, then overwrite the buffer", nil
	case 10: // entity uid set from a buffer
		n := t.Intn(5)
		buf := make([]types.EntityUID, 0, n)
		var want []types.EntityUID
		for i := 0; i < n; i++ {
			u := uidUniverse[t.Intn(len(uidUniverse))]
			buf = append(buf, u)
			dup := false
			for _, w := range want {
				if w == u {
					dup = true
				}
			}
			if !dup {
				want = append(want, u)
			}
		}
		e := &uidSetEntry{s: types.NewEntityUIDSet(buf...), want: want, buf: buf}
		if len(h.usets) >= 3 {
			h.usets = h.usets[1:]
		}
		h.usets = append(h.usets, e)
		return fmt.Sprintf("NewEntityUIDSet(%d members)", n), nil
	case 11: // mutate uid buffer / slice result
		if len(h.usets) == 0 {
			return "noop", nil
		}
		e := h.usets[t.Intn(len(h.usets))]
		h.muts++
		for i := range e.buf {
			e.buf[i] = types.NewEntityUID("Over", "written")
		}
		sl := e.s.Slice()
		for i := range sl {
			sl[i] = types.NewEntityUID("Over", "written")
		}
		return "mutate the slice an EntityUIDSet was built from and its Slice() result", nil
	default: // same members, different order and duplicates
		if len(h.vals) == 0 {
			return "noop", nil
		}
		l := h.vals[t.Intn(len(h.vals))]
		if l.m.kind != 's' && t.Bool() {
			// deep twin: the same value rebuilt from its model, every set at every depth
			// with its members in another order and with duplicates
			h.add(&live{item: item{buildFromModel(l.m, t), l.m}})
			return "deep twin of " + l.m.String() + " (same model, different construction order at every level)", nil
		}
		if s, ok := l.v.(types.Set); ok {
			sl := s.Slice()
			for i := len(sl) - 1; i > 0; i-- {
				j := t.Intn(i + 1)
				sl[i], sl[j] = sl[j], sl[i]
			}
			if len(sl) > 0 {
				sl = append(sl, sl[t.Intn(len(sl))])
			}
			h.add(&live{item: item{types.NewSet(sl...), l.m}, sbuf: sl})
			return "rebuild a set from its own members in another order with a duplicate", nil
		}
		return "noop", nil
	}
}

// collisionPartner maps a universe scalar to another one with the same internal hash.
var collisionPartner = map[int][]int{0: {1, 2, 3, 4}, 1: {0, 2, 3, 4}, 2: {0, 1, 3}, 3: {0, 1, 4}, 4: {0, 1, 2}, 5: {6, 19, 20}, 6: {5, 19, 20}, 40: {41, 42, 43}, 44: {45, 46, 47}}

// nearTwin copies the model and replaces one scalar leaf (the first that has a collision
// partner, in a deterministic walk) by a different scalar with the same internal hash.
func nearTwin(m *mval, t *verifsim.Tape) (*mval, bool) {
	switch m.kind {
	case 's':
		if ps, ok := collisionPartner[m.idx]; ok {
			return mscalar(ps[t.Intn(len(ps))]), true
		}
		return m, false
	case 'S':
		out := &mval{kind: 'S'}
		changed := false
		for _, e := range m.elems {
			if !changed {
				ne, c := nearTwin(e, t)
				if c && !mcontains(m, ne) {
					out.elems = append(out.elems, ne)
					changed = true
					continue
				}
			}
			out.elems = append(out.elems, e)
		}
		return out, changed
	default:
		out := &mval{kind: 'R', fields: map[string]*mval{}}
		changed := false
		ks := make([]string, 0, len(m.fields))
		for k := range m.fields {
			ks = append(ks, k)
		}
		sort.Strings(ks)
		for _, k := range ks {
			e := m.fields[k]
			if !changed {
				ne, c := nearTwin(e, t)
				if c {
					out.fields[k] = ne
					changed = true
					continue
				}
			}
			out.fields[k] = e
		}
		return out, changed
	}
}

// buildFromModel constructs a value equal to the model, choosing the member order of every
// set (and adding a duplicate) from the tape, so that internal layouts differ between twins.
func buildFromModel(m *mval, t *verifsim.Tape) types.Value {
	switch m.kind {
	case 's':
		return scalars[m.idx]
	case 'S':
		vs := make([]types.Value, 0, len(m.elems)+1)
		for _, e := range m.elems {
			vs = append(vs, buildFromModel(e, t))
		}
		for i := len(vs) - 1; i > 0; i-- {
			j := t.Intn(i + 1)
			vs[i], vs[j] = vs[j], vs[i]
		}
		if len(vs) > 0 && t.Bool() {
			vs = append(vs, vs[t.Intn(len(vs))])
		}
		return types.NewSet(vs...)
	default:
		rm := types.RecordMap{}
		ks := make([]string, 0, len(m.fields))
		for k := range m.fields {
			ks = append(ks, k)
		}
		sort.Strings(ks)
		for _, k := range ks {
			rm[types.String(k)] = buildFromModel(m.fields[k], t)
		}
		return types.NewRecord(rm)
	}
}

// decodeCedar parses Cedar value text by way of the policy parser and the evaluator.
func decodeCedar(text []byte) (types.Value, error) {
	var p cedar.Policy
	src := "permit (principal, action, resource) when { " + string(text) + " };"
	if err := p.UnmarshalCedar([]byte(src)); err != nil {
		return nil, err
	}
	body := (*xast.Policy)(p.AST()).Conditions[0].Body
	return xeval.Eval(body, xeval.Env{Entities: types.EntityMap{}})
}

func evalOp(op string, a, b types.Value) (bool, error) {
	an, bn := xast.NodeValue{Value: a}, xast.NodeValue{Value: b}
	var n xast.IsNode
	bin := xast.BinaryNode{Left: an, Right: bn}
	switch op {
	case "==":
		n = xast.NodeTypeEquals{BinaryNode: bin}
	case "contains":
		n = xast.NodeTypeContains{BinaryNode: bin}
	case "containsAll":
		n = xast.NodeTypeContainsAll{BinaryNode: bin}
	case "containsAny":
		n = xast.NodeTypeContainsAny{BinaryNode: bin}
	}
	v, err := xeval.Eval(n, xeval.Env{Entities: types.EntityMap{}})
	if err != nil {
		return false, err
	}
	bv, ok := v.(types.Boolean)
	if !ok {
		return false, fmt.Errorf("operator %s returned %T", op, v)
	}
	return bool(bv), nil
}

// check verifies every live value against its model.
func (h *heap) check(step string) *core.Violation {
	for _, l := range h.vals {
		switch x := l.v.(type) {
		case types.Set:
			if l.m.kind != 'S' {
				return viol("type-changed", "after %s: model %s is not a set but the value is", step, l.m)
			}
			if x.Len() != len(l.m.elems) {
				return viol("set-length", "after %s: %s has Len %d, should have %d (rendered %s)", step, l.m, x.Len(), len(l.m.elems), x.MarshalCedar())
			}
			for i, u := range scalars {
				if got, want := x.Contains(u), mcontains(l.m, mscalar(i)); got != want {
					return viol("set-contains", "after %s: %s .Contains(%s) = %v, should be %v (rendered %s)", step, l.m, u.MarshalCedar(), got, want, x.MarshalCedar())
				}
			}
			n := 0
			for e := range x.All() {
				n++
				if !x.Contains(e) {
					return viol("set-contains", "after %s: %s yields member %s which it does not Contain", step, l.m, e.MarshalCedar())
				}
			}
			if n != len(l.m.elems) {
				return viol("set-length", "after %s: %s iterates %d members, should have %d", step, l.m, n, len(l.m.elems))
			}
		case types.Record:
			if l.m.kind != 'R' {
				return viol("type-changed", "after %s: model %s is not a record but the value is", step, l.m)
			}
			if x.Len() != len(l.m.fields) {
				return viol("record-length", "after %s: %s has Len %d, should have %d (rendered %s)", step, l.m, x.Len(), len(l.m.fields), x.MarshalCedar())
			}
			for _, k := range append(append([]types.String(nil), keys...), "intruder") {
				_, ok := x.Get(k)
				_, want := l.m.fields[string(k)]
				if ok != want {
					return viol("record-get", "after %s: %s .Get(%q) present=%v, should be %v", step, l.m, k, ok, want)
				}
			}
		}
	}
	// pairwise equality against the model, symmetry, operators
	all := make([]item, 0, len(h.vals)+6)
	for _, l := range h.vals {
		all = append(all, l.item)
	}
	for _, i := range []int{0, 1, 2, 5, 10, 12, 13} {
		all = append(all, item{scalars[i], mscalar(i)})
	}
	for i, a := range all {
		if !a.v.Equal(a.v) {
			return viol("equal-not-reflexive", "after %s: %s is not Equal to itself", step, a.m)
		}
		for j, b := range all {
			got := a.v.Equal(b.v)
			want := meq(a.m, b.m)
			if got != want {
				return viol("equal-wrong", "after %s: %s .Equal(%s) = %v, the model says %v (rendered %s vs %s)", step, a.m, b.m, got, want, a.v.MarshalCedar(), b.v.MarshalCedar())
			}
			if b.v.Equal(a.v) != got {
				return viol("equal-not-symmetric", "after %s: Equal is not symmetric for %s and %s", step, a.m, b.m)
			}
			if j < i {
				continue
			}
			if r, err := evalOp("==", a.v, b.v); err != nil || r != want {
				return viol("operator-eq", "after %s: %s == %s evaluates to %v (err %v), the model says %v", step, a.m, b.m, r, err, want)
			}
			if a.m.kind == 'S' {
				if r, err := evalOp("contains", a.v, b.v); err != nil || r != mcontains(a.m, b.m) {
					return viol("operator-contains", "after %s: %s.contains(%s) evaluates to %v (err %v), the model says %v", step, a.m, b.m, r, err, mcontains(a.m, b.m))
				}
				if b.m.kind == 'S' {
					wantAll, wantAny := true, false
					for _, e := range b.m.elems {
						if mcontains(a.m, e) {
							wantAny = true
						} else {
							wantAll = false
						}
					}
					if r, err := evalOp("containsAll", a.v, b.v); err != nil || r != wantAll {
						return viol("operator-containsAll", "after %s: %s.containsAll(%s) evaluates to %v (err %v), the model says %v", step, a.m, b.m, r, err, wantAll)
					}
					if r, err := evalOp("containsAny", a.v, b.v); err != nil || r != wantAny {
						return viol("operator-containsAny", "after %s: %s.containsAny(%s) evaluates to %v (err %v), the model says %v", step, a.m, b.m, r, err, wantAny)
					}
				}
			}
		}
	}
	// transitivity (implied by model agreement; checked directly on the live values)
	for _, a := range h.vals {
		for _, b := range h.vals {
			if !a.v.Equal(b.v) {
				continue
			}
			for _, c := range h.vals {
				if b.v.Equal(c.v) && !a.v.Equal(c.v) {
					return viol("equal-not-transitive", "after %s: %s = %s and %s = %s but not %s = %s", step, a.m, b.m, b.m, c.m, a.m, c.m)
				}
			}
		}
	}
	// byte slices handed out at the previous step still say what they said
	for _, ho := range h.held {
		if string(ho.out) != ho.copy {
			return viol("output-aliased", "after %s: the bytes returned earlier by %s changed under the caller's hands: %q, were %q", step, ho.what, ho.out, ho.copy)
		}
		// and the caller may scribble on them without affecting any value (checked below
		// through the model comparison of every live value)
		for i := range ho.out {
			ho.out[i] = '#'
		}
	}
	h.held = h.held[:0]
	// scalars too: the caller may append to what it was handed (a shared table entry with
	// spare capacity would let that run into the neighbours' text)
	for _, i := range []int{1, 6, 7, 8, 9, 0, 5, 10, 14} {
		o := scalars[i].MarshalCedar()
		want := string(o)
		o = append(o, ", appended by the caller"...)
		_ = o
		if got := string(scalars[i].MarshalCedar()); got != want {
			return viol("output-aliased", "after %s: the text of universe scalar %d changed after the caller appended to an earlier rendering: %q, was %q", step, i, got, want)
		}
	}
	for _, i := range []int{1, 6, 7, 8, 9} {
		if got, err := decodeCedar(scalars[i].MarshalCedar()); err != nil || !got.Equal(scalars[i]) {
			return viol("output-aliased", "after %s: the text of universe scalar %d (%s) no longer decodes to it (err %v) after a caller appended to the rendering of another scalar", step, i, scalars[i].MarshalCedar(), err)
		}
	}
	for _, l := range h.vals {
		if l.m.kind == 's' {
			continue
		}
		o := l.v.MarshalCedar()
		h.held = append(h.held, heldOutput{what: "MarshalCedar of " + l.m.String(), out: o, copy: string(o)})
		if j, err := json.Marshal(l.v); err == nil {
			h.held = append(h.held, heldOutput{what: "MarshalJSON of " + l.m.String(), out: j, copy: string(j)})
		}
	}
	for i, ho := range h.held {
		// outputs obtained back to back must not overwrite each other either
		if string(ho.out) != ho.copy {
			return viol("output-aliased", "after %s: %s was overwritten by a later marshalling call (%d outputs held): %q, was %q", step, ho.what, i, ho.out, ho.copy)
		}
	}
	// encodings of every live value decode to an equal value
	for _, l := range h.vals {
		b, err := json.Marshal(l.v)
		if err != nil {
			return viol("json-encode-error", "after %s: json.Marshal(%s) failed: %v", step, l.m, err)
		}
		var out types.Value
		if err := types.UnmarshalJSON(b, &out); err != nil || !out.Equal(l.v) || !l.v.Equal(out) {
			return viol("json-round-trip", "after %s: the JSON form of %s (%s) decodes to a value that is not Equal (err %v)", step, l.m, b, err)
		}
		out2, err := decodeCedar(l.v.MarshalCedar())
		if err != nil || !out2.Equal(l.v) {
			return viol("cedar-round-trip", "after %s: the Cedar text form of %s (%s) decodes to a value that is not Equal (err %v)", step, l.m, l.v.MarshalCedar(), err)
		}
	}
	for _, e := range h.usets {
		if e.s.Len() != len(e.want) {
			return viol("uidset-length", "after %s: EntityUIDSet has Len %d, should have %d", step, e.s.Len(), len(e.want))
		}
		for _, u := range uidUniverse {
			want := false
			for _, w := range e.want {
				if w == u {
					want = true
				}
			}
			if e.s.Contains(u) != want {
				return viol("uidset-contains", "after %s: EntityUIDSet.Contains(%s) = %v, should be %v", step, u, !want, want)
			}
		}
		if e.s.Contains(types.NewEntityUID("Over", "written")) {
			return viol("uidset-aliased", "after %s: an EntityUIDSet changed when the caller's slice was overwritten", step)
		}
		// iteration yields exactly the members, once each
		seen := map[types.EntityUID]int{}
		for u := range e.s.All() {
			seen[u]++
		}
		n2 := 0
		e.s.Iterate(func(u types.EntityUID) bool { n2++; return true })
		if len(seen) != len(e.want) || n2 != len(e.want) || len(e.s.Slice()) != len(e.want) {
			return viol("uidset-iteration", "after %s: EntityUIDSet iterates %d / %d / %d members, should have %d", step, len(seen), n2, len(e.s.Slice()), len(e.want))
		}
		for _, w := range e.want {
			if seen[w] != 1 {
				return viol("uidset-iteration", "after %s: EntityUIDSet.All() yields %s %d times", step, w, seen[w])
			}
		}
		// JSON round trip and the pairwise relations between the uid sets of the heap
		b, err := json.Marshal(e.s)
		if err != nil {
			return viol("uidset-json", "after %s: json.Marshal(EntityUIDSet) failed: %v", step, err)
		}
		var back types.EntityUIDSet
		if err := json.Unmarshal(b, &back); err != nil || !back.Equal(e.s) || !e.s.Equal(back) {
			return viol("uidset-json", "after %s: the JSON form of an EntityUIDSet (%s) does not decode to an equal set (err %v)", step, b, err)
		}
		for _, o := range h.usets {
			wantEq := len(e.want) == len(o.want)
			wantInter := false
			for _, w := range e.want {
				found := false
				for _, x := range o.want {
					if x == w {
						found = true
					}
				}
				if found {
					wantInter = true
				} else {
					wantEq = false
				}
			}
			if e.s.Equal(o.s) != wantEq {
				return viol("uidset-equal", "after %s: EntityUIDSet.Equal is %v for member lists %v and %v", step, !wantEq, e.want, o.want)
			}
			if e.s.Intersects(o.s) != wantInter {
				return viol("uidset-intersects", "after %s: EntityUIDSet.Intersects is %v for member lists %v and %v", step, !wantInter, e.want, o.want)
			}
		}
	}
	return nil
}

func (p Prop) Run(r *core.Run) *core.Violation {
	r.Sim.OrderMode = verifsim.OrderTape
	r.Sim.Activate()
	defer r.Sim.Deactivate()
	h := &heap{}
	maxSteps := 22
	if r.Tier == "thorough" {
		maxSteps = 45
	}
	hh := fnv.New64a()
	var hist []string
	for i := 0; i < maxSteps+3; i++ {
		// "one more step?" before every step (0 = stop): shrink-friendly history length
		if i > 2 && r.T.Intn(16) == 0 {
			break
		}
		r.Sim.Budget(30_000_000) // per step
		desc, v := h.step(r.T)
		if v != nil {
			v.Msg = fmt.Sprintf("step %d: %s", i+1, v.Msg)
			return v
		}
		step := fmt.Sprintf("step %d (%s)", i+1, desc)
		r.Logf("%s", step)
		fmt.Fprint(hh, desc, ";")
		hist = append(hist, desc)
		if v := h.check(step); v != nil {
			return v
		}
	}
	comp := 0
	for _, l := range h.vals {
		if l.m.kind != 's' {
			comp++
		}
	}
	r.Obs(hh.Sum64())
	if h.muts >= 1 && comp >= 2 {
		r.Nontrivial(hh.Sum64())
	}
	r.CountN("mutations_after_use", uint64(h.muts))
	if r.T.Pos()%29 == 0 || r.Tracing {
		r.Quiet(func() {
			r.Sample(map[string]any{"history": hist})
		})
	}
	return nil
}

// Exhaustive: every sequence of <= 4 members of the collision family, in every order.
func (p Prop) Exhaustive(tier string, report func(string, uint64), fail func(*core.Violation, string)) {
	sim := verifsim.NewSim(verifsim.NewTape(3), verifsim.NewTape(4))
	sim.OrderMode = verifsim.OrderReverse
	sim.Activate()
	defer sim.Deactivate()
	maxLen := 4
	if tier == "thorough" {
		maxLen = 5
	}
	var count uint64
	failed := false
	var rec func(seq []int)
	rec = func(seq []int) {
		if len(seq) > 0 {
			count++
			sim.Steps = 0
			if v := checkSequence(seq); v != nil && !failed {
				failed = true
				fail(v, fmt.Sprintf("enumerated member sequence (universe indices): %v", seq))
			}
		}
		if len(seq) == maxLen {
			return
		}
		for _, i := range familyIdx {
			rec(append(append([]int(nil), seq...), i))
		}
	}
	rec(nil)
	report(fmt.Sprintf("sets built from every sequence of <= %d members of the 8-element hash-collision family", maxLen), count)
	// the same over the wrap-around family
	count = 0
	fam := negFamilyIdx
	var rec2 func(seq []int)
	rec2 = func(seq []int) {
		if len(seq) > 0 {
			count++
			sim.Steps = 0
			if v := checkSequenceOver(seq, fam); v != nil && !failed {
				failed = true
				fail(v, fmt.Sprintf("enumerated member sequence over the wrap-around family (universe indices): %v", seq))
			}
		}
		if len(seq) == 4 {
			return
		}
		for _, i := range fam {
			rec2(append(append([]int(nil), seq...), i))
		}
	}
	rec2(nil)
	report("sets built from every sequence of <= 4 members of the 9-element wrap-around family (hash 2^64-2, 2^64-1, 0, 1)", count)
}

func checkSequence(seq []int) *core.Violation { return checkSequenceOver(seq, familyIdx) }

func checkSequenceOver(seq []int, family []int) *core.Violation {
	vals := make([]types.Value, len(seq))
	var ms []*mval
	for i, x := range seq {
		vals[i] = scalars[x]
		ms = append(ms, mscalar(x))
	}
	m := mset(ms)
	s := types.NewSet(vals...)
	if s.Len() != len(m.elems) {
		return viol("set-length", "NewSet%v has Len %d, %d distinct members expected", seq, s.Len(), len(m.elems))
	}
	for _, i := range family {
		if s.Contains(scalars[i]) != mcontains(m, mscalar(i)) {
			return viol("set-contains", "NewSet%v .Contains(u%d) = %v", seq, i, s.Contains(scalars[i]))
		}
	}
	// the same members, distinct and in sorted / reversed order, must give an equal set
	var d []types.Value
	for _, e := range m.elems {
		d = append(d, scalars[e.idx])
	}
	s2 := types.NewSet(d...)
	for i, j := 0, len(d)-1; i < j; i, j = i+1, j-1 {
		d[i], d[j] = d[j], d[i]
	}
	s3 := types.NewSet(d...)
	if !s.Equal(s2) || !s2.Equal(s) || !s.Equal(s3) || !s3.Equal(s2) {
		return viol("equal-wrong", "sets built from the members of %v in different orders / with duplicates are not Equal", seq)
	}
	b, err := json.Marshal(s)
	var out types.Value
	if err != nil || types.UnmarshalJSON(b, &out) != nil || !out.Equal(s) {
		return viol("json-round-trip", "JSON form of NewSet%v does not decode to an Equal set (%s)", seq, b)
	}
	return nil
}
