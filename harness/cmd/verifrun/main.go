package main

import (
	"github.com/cedar-policy/cedar-go/verifharness/c05"
	"github.com/cedar-policy/cedar-go/verifharness/c11"
	"github.com/cedar-policy/cedar-go/verifharness/c14"
	"github.com/cedar-policy/cedar-go/verifharness/c18"
	"github.com/cedar-policy/cedar-go/verifharness/c19"
	"github.com/cedar-policy/cedar-go/verifharness/c20"
	"github.com/cedar-policy/cedar-go/verifharness/core"
)

func main() {
	core.Register(c05.Prop{})
	core.Register(c11.Prop{})
	core.Register(c14.Prop{})
	core.Register(c18.Prop{})
	core.Register(c19.Prop{})
	core.Register(c20.Prop{})
	core.RegisterCommand("race-c19", c19.RaceMain)
	core.Main()
}
