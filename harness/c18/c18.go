// Package c18: streaming decode is chunking-invariant, reader failures are errors,
// positions are exact.  See DESIGN.md §4 (C18).
package c18

import (
	"bytes"
	"context"
	"errors"
	"fmt"
	"hash/fnv"
	"io"
	"reflect"
	"strings"
	"unicode/utf8"

	cedar "github.com/cedar-policy/cedar-go"
	"github.com/cedar-policy/cedar-go/internal/verifsim"
	"github.com/cedar-policy/cedar-go/types"
	"github.com/cedar-policy/cedar-go/verifharness/core"
	"github.com/cedar-policy/cedar-go/verifharness/gen"
	"github.com/cedar-policy/cedar-go/x/exp/batch"
)

type Prop struct{}

func (Prop) ID() string     { return "C18" }
func (Prop) Level() string  { return "fault_enumeration" }
func (Prop) QuickRuns() int { return 2500 }
func (Prop) Rule() string {
	return "each run = one generated policy document (1-6 statements from hand-layout templates and random expressions, random layout incl. CR/LF/CRLF, // and /* */ comments with 2-4 byte runes, paddings > 1100 bytes; one third damaged) x one reader schedule (per-Read chunk size from the tape: 1, 2-3, small, full, up-to-next-interesting-offset +-3, zero-length bursts, data+EOF or separate EOF) x optionally one reader fault (kind x byte position x follow-up); enumerating runs try every byte position x every fault kind of their document. A run is non-trivial iff a chunk boundary fell strictly inside a token, string, comment or multi-byte rune, or a fault fired; distinct = distinct hash of (document, delivered chunk sequence, fault)."
}
func (Prop) Assumptions() []string {
	return []string{
		"the reader stub honours the io.Reader contract (sticky EOF, bounded zero-length bursts); readers that return n==0,nil forever are outside the property",
		"positions are checked against an independent computation from the bytes (offset recorded by the generator, line = 1+#LF before, column = 1+#runes since last LF)",
		"after an injected failure the error text is not compared (only: non-nil, not io.EOF, yielded policies are a prefix of the fault-free result)",
	}
}
func (Prop) Components() (real, stub []string) {
	return []string{"cedar.NewDecoder/Decode (stream.go)", "internal/parser scanner, tokenizer, parser (instrumented copy)", "cedar.NewPolicyListFromBytes, NewPolicySetFromBytes, PolicySet, cedar.Authorize, internal/eval"},
		[]string{"io.Reader (SimReader: chunking, zero reads, EOF styles, failures)", "map iteration order (verifsim.RangeMap)"}
}
func (Prop) Refine(v *core.Violation, t, s []uint32, exec func(t, s []uint32) (*core.Violation, *core.Run)) *core.Violation {
	return v
}

// ---------------------------------------------------------------------------------
// document generation

var templates = []string{
	`permit (principal, action, resource);`,
	`forbid (principal == User::"a", action, resource) when { context.a };`,
	"permit (\n  principal == User::\"a\",\n  action in [Action::\"a\", Action::\"b\"],\n  resource is Doc in Group::\"a\"\n)\nwhen { context.name like \"a\\*b*\" && resource has \"na me\" }\nunless { principal.a == \"\\u{1F600}\" };",
	`@id("p1") @note("日本 🙂 é") permit (principal in Group::"b", action == Action::"a", resource) when { principal.name == "é日本🙂" };`,
	`permit (principal is User, action, resource is Doc) when { {"if": 1, "then": 2, "else": 3}["then"] == 2 && context has "in" && [1, 2, 3].contains(context.a) };`,
	`forbid (principal, action, resource) unless { ip("10.0.0.1").isInRange(ip("10.0.0.0/8")) || decimal("1.5").lessThan(decimal("2.0")) };`,
	`permit (principal, action, resource) when { 1 + "a" == 2 };`,
	`permit (principal, action, resource) when { principal.missing.deeper };`,
	`@a("") permit (principal, action, resource) when { "q\"uo\\te\n\t\0\x41" != "\u{e9}" };`,
	`permit (principal, action, resource) when { -9223372036854775808 < 9223372036854775807 - 1 * 2 };`,
	`permit (principal, action, resource) when { resource.hasTag("k") && resource.getTag("k") == "v" };`,
	`permit (principal, action, resource) when { if context.a then principal in [User::"a", Group::"b"] else !(resource is Doc) };`,
	`permit (principal, action, resource) when { datetime("2024-01-01").offset(duration("1d")).toDate() <= datetime("2024-02-29T12:34:56Z") };`,
	// identifiers that begin with (or are one letter short of) a reserved word
	`permit (principal, action, resource) when { context.isAdmin && principal has index && context.info.hash == "x" && resource.likes > 1 };`,
	`forbid (principal, action, resource) unless { context has ifx || context.thenx == context.elsewhere || {inner: 1, truey: 2, falsey: 3}.inner == 1 };`,
	`@index("i") @info("n") permit (principal is Isolde, action, resource is Inbox) when { principal.tru && resource.fals && context.i && context.like_ };`,
}

type document struct {
	data     []byte
	starts   []int    // byte offset of each statement's first token
	texts    []string // statement texts
	damaged  string   // "" or damage kind
	damageAt int
}

func layoutPiece(g *gen.G, big bool) string {
	n := 10
	if big {
		n = 13
	}
	switch g.T.Intn(n) {
	case 0:
		return " "
	case 1:
		return "\n"
	case 2:
		return "\r\n"
	case 3:
		return "\t"
	case 4:
		return "\r"
	case 5:
		return "// line comment\n"
	case 6:
		return "// é日本🙂 comment\r\n"
	case 7:
		return "/* block\n 🙂 é ** / */"
	case 8:
		return "\n\n  "
	case 9:
		return "/**/"
	case 10:
		return "/* " + strings.Repeat("pad🙂", 150+g.T.Intn(200)) + " */"
	case 11:
		return "// " + strings.Repeat("x", 900+g.T.Intn(400)) + "é\n"
	default:
		return strings.Repeat(" ", 1000+g.T.Intn(60))
	}
}

func genDocument(g *gen.G, maxPolicies int, allowBig bool, allowDamage bool) *document {
	d := &document{}
	var buf bytes.Buffer
	np := 1 + g.T.Intn(maxPolicies)
	lay := func() {
		k := g.T.Intn(4)
		for i := 0; i < k; i++ {
			buf.WriteString(layoutPiece(g, allowBig))
		}
	}
	lay()
	for i := 0; i < np; i++ {
		var txt string
		switch g.T.Intn(4) {
		case 0, 1:
			txt = templates[g.T.Intn(len(templates))]
		case 2:
			txt = g.PolicyText()
		default:
			if allowBig && g.T.Intn(40) == 39 {
				// a token around a power-of-two size limit (64 KiB): limits must not depend on
				// how the reader chunks the document
				n := 65536 - 300 + g.T.Intn(1500)
				txt = `permit (principal, action, resource) when { context.name == "` + strings.Repeat("y", n) + `" };`
			} else if allowBig && g.T.Intn(3) == 2 {
				// tokens longer than any buffer
				if g.T.Bool() {
					txt = `permit (principal, action, resource) when { context.name == "` + strings.Repeat("日本x", 300+g.T.Intn(100)) + `" };`
				} else {
					txt = `permit (principal, action, resource) when { context has ` + strings.Repeat("longident", 120+g.T.Intn(20)) + ` };`
				}
			} else {
				txt = g.PolicyText()
			}
		}
		d.starts = append(d.starts, buf.Len())
		d.texts = append(d.texts, txt)
		buf.WriteString(txt)
		lay()
	}
	d.data = buf.Bytes()
	if allowDamage && g.T.Intn(3) == 2 {
		d.damage(g)
	}
	return d
}

var junk = []string{"#", "$", "=", "|", "&", "'", "`", "\\", "~", "?", "%", "^"}

func (d *document) damage(g *gen.G) {
	kinds := []string{"bad-utf8", "nul", "drop-semicolon", "unterminated-string", "unterminated-comment", "bad-escape", "junk-token", "truncated-rune", "bom-at-start", "odd-rune"}
	k := kinds[g.T.Intn(len(kinds))]
	data := d.data
	pos := g.T.Intn(len(data) + 1)
	ins := func(at int, b []byte) {
		nd := make([]byte, 0, len(data)+len(b))
		nd = append(nd, data[:at]...)
		nd = append(nd, b...)
		nd = append(nd, data[at:]...)
		data = nd
	}
	switch k {
	case "bad-utf8":
		ins(pos, []byte{0xff})
	case "nul":
		ins(pos, []byte{0})
	case "truncated-rune":
		ins(pos, []byte{0xe6, 0x97})
	case "bom-at-start":
		pos = 0
		ins(0, []byte{0xEF, 0xBB, 0xBF})
	case "odd-rune":
		// characters that are legal UTF-8 but not legal between tokens
		odd := []string{"\uFEFF", "\u00A0", "\u2028", "\u200B", "\u0085", "\v", "\f"}
		ins(pos, []byte(odd[g.T.Intn(len(odd))]))
	case "junk-token":
		ins(pos, []byte(junk[g.T.Intn(len(junk))]))
	case "unterminated-comment":
		ins(pos, []byte("/* never closed "))
	case "unterminated-string":
		ins(pos, []byte(`"open`))
	case "bad-escape":
		ins(pos, []byte(`"\q"`))
	case "drop-semicolon":
		// remove the last ';' at or before pos (or the first after it)
		i := bytes.LastIndexByte(data[:pos], ';')
		if i < 0 {
			i = bytes.IndexByte(data, ';')
		}
		if i >= 0 {
			data = append(append([]byte(nil), data[:i]...), data[i+1:]...)
			pos = i
		}
	}
	d.damaged = k
	d.damageAt = pos
	d.data = data
}

// ---------------------------------------------------------------------------------
// independent byte classification (for reach probes and "interesting" offsets only; it
// is never used by an oracle)

const (
	clsOther = iota
	clsToken
	clsString
	clsComment
)

// classify returns, for every boundary i (between byte i-1 and byte i), whether it lies
// strictly inside a token / string / comment, and whether byte i is a rune continuation.
func classify(data []byte) (inside []uint8, cont []bool) {
	n := len(data)
	inside = make([]uint8, n+1)
	cont = make([]bool, n+1)
	for i := 0; i < n; i++ {
		if data[i]&0xC0 == 0x80 {
			cont[i] = true
		}
	}
	isWord := func(b byte) bool {
		return b == '_' || (b >= '0' && b <= '9') || (b >= 'a' && b <= 'z') || (b >= 'A' && b <= 'Z')
	}
	i := 0
	for i < n {
		b := data[i]
		switch {
		case b == '"':
			j := i + 1
			for j < n && data[j] != '"' && data[j] != '\n' {
				if data[j] == '\\' && j+1 < n {
					j++
				}
				j++
			}
			if j < n {
				j++
			}
			for k := i + 1; k < j; k++ {
				inside[k] = clsString
			}
			i = j
		case b == '/' && i+1 < n && data[i+1] == '/':
			j := i
			for j < n && data[j] != '\n' {
				j++
			}
			for k := i + 1; k < j; k++ {
				inside[k] = clsComment
			}
			i = j
		case b == '/' && i+1 < n && data[i+1] == '*':
			j := i + 2
			for j+1 < n && !(data[j] == '*' && data[j+1] == '/') {
				j++
			}
			j += 2
			if j > n {
				j = n
			}
			for k := i + 1; k < j; k++ {
				inside[k] = clsComment
			}
			i = j
		case isWord(b):
			j := i
			for j < n && isWord(data[j]) {
				j++
			}
			for k := i + 1; k < j; k++ {
				inside[k] = clsToken
			}
			i = j
		case i+1 < n && strings.Contains("== != <= >= && || ::", string(data[i:i+2])) && data[i] != ' ':
			inside[i+1] = clsToken
			i += 2
		default:
			i++
		}
	}
	return
}

// ---------------------------------------------------------------------------------
// decoding through the real stream decoder

type decoded struct {
	afterTerminal bool // Decode changed its answer after the terminal error
	policies      []*cedar.Policy
	err           error // terminal error (io.EOF on clean end)
	calls         int
}

func decodeAll(r io.Reader, limit int) decoded { return decodeAllInto(r, limit, false) }

// decodeAllInto drains a decoder.  With reuse, every statement is decoded into ONE
// destination variable declared outside the loop and a value copy of each policy is kept -
// an ordinary way to use the API; the copies must stay what they were.
func decodeAllInto(r io.Reader, limit int, reuse bool) decoded {
	dec := cedar.NewDecoder(r)
	var out decoded
	var shared cedar.Policy
	for i := 0; i < limit; i++ {
		var fresh cedar.Policy
		p := &fresh
		if reuse {
			p = &shared
		}
		err := dec.Decode(p)
		out.calls++
		if err != nil {
			out.err = err
			// a finished decoder stays finished: the same terminal result, no further policy
			for k := 0; k < 2; k++ {
				var q cedar.Policy
				if err2 := dec.Decode(&q); err2 == nil || err2.Error() != err.Error() {
					out.err = fmt.Errorf("harness: Decode after the terminal error %q returned %v", err, err2)
					out.afterTerminal = true
				}
			}
			return out
		}
		pp := *p
		out.policies = append(out.policies, &pp)
	}
	out.err = errors.New("harness: decode limit reached without terminal error")
	return out
}

func errStr(e error) string {
	if e == nil {
		return "<nil>"
	}
	return e.Error()
}

func samePolicies(a, b []*cedar.Policy) (bool, string) {
	if len(a) != len(b) {
		return false, fmt.Sprintf("%d vs %d policies", len(a), len(b))
	}
	for i := range a {
		if !reflect.DeepEqual(a[i].AST(), b[i].AST()) {
			return false, fmt.Sprintf("policy %d differs: position %+v vs %+v, text %q vs %q", i, a[i].Position(), b[i].Position(), a[i].MarshalCedar(), b[i].MarshalCedar())
		}
		if !bytes.Equal(a[i].MarshalCedar(), b[i].MarshalCedar()) {
			return false, fmt.Sprintf("policy %d renders differently", i)
		}
	}
	return true, ""
}

// ---------------------------------------------------------------------------------
// reader schedules

type fault struct {
	errKind int    // index into faultErrors
	kind    string // "", "err0" (0 bytes + error), "errn" (n>0 bytes + error), "eof" (early EOF)
	at      int    // byte position
	follow  string // "sticky" | "then-eof" | "transient"
}

func (f fault) String() string {
	if f.kind == "" {
		return "none"
	}
	return fmt.Sprintf("%s@%d/%s/err%d", f.kind, f.at, f.follow, f.errKind)
}

type schedule struct {
	style    int  // 0 mixed, 1 all full, 2 all single bytes, 3 small
	eofStyle int  // 0 separate (0,EOF), 1 data+EOF with the last chunk
	reuseDst bool // decode every statement into one reused destination variable
}

type chunkStats struct {
	boundaries                                     []int
	inTok, inStr, inCom, inRune1, inRune2, inRune3 int
	fired                                          bool
	firedN                                         int
	zero                                           int
}

var errFault = verifsim.ErrInjected

// faultErrors are the values an injected (non-transient) reader failure may carry: a plain
// error, io.ErrUnexpectedEOF (what a truncated compressed stream reports), an error wrapping
// it, and an error that merely prints as "EOF".  None of them is io.EOF.
var faultErrors = []error{
	verifsim.ErrInjected,
	io.ErrUnexpectedEOF,
	fmt.Errorf("layered reader: %w", io.ErrUnexpectedEOF),
	errors.New("EOF"),
}

// makeReader builds a SimReader over data whose decisions come from tape.
func makeReader(tape *verifsim.Tape, data []byte, sch schedule, f fault, interesting []int, keepLog bool) (*verifsim.SimReader, *chunkStats) {
	cs := &chunkStats{}
	limit := len(data)
	if f.kind == "eof" {
		limit = f.at
	}
	rd := &verifsim.SimReader{Data: data[:limit], KeepLog: keepLog}
	pending := f.kind == "err0" || f.kind == "errn"
	rd.Decide = func(r *verifsim.SimReader, room int) verifsim.ReadPlan {
		left := len(r.Data) - r.Pos
		if pending && r.Pos == f.at {
			// the Read that starts at the fault position fails without data
			pending = false
			cs.fired = true
			return faultPlan(f, 0)
		}
		var n int
		switch sch.style {
		case 1:
			n = room
		case 2:
			n = 1
		case 3:
			n = 1 + tape.Intn(16)
		default:
			switch tape.Intn(7) {
			case 0:
				n = room
			case 1:
				n = 1
			case 2:
				n = 2 + tape.Intn(2)
			case 3:
				n = 1 + tape.Intn(16)
			case 4, 5:
				// up to the next interesting offset +- {0..3}
				n = room
				skip := tape.Intn(3)
				for _, o := range interesting {
					if o > r.Pos {
						if skip > 0 {
							skip--
							continue
						}
						n = o - r.Pos + tape.Intn(7) - 3
						break
					}
				}
				if n < 1 {
					n = 1
				}
			default:
				if cs.zero < 3 && left > 0 {
					cs.zero++
					return verifsim.ReadPlan{N: 0}
				}
				n = 1 + tape.Intn(8)
			}
		}
		if n > room {
			n = room
		}
		if n > left {
			n = left
		}
		if pending && r.Pos+n >= f.at {
			// never run past the fault position
			n = f.at - r.Pos
			if f.kind == "errn" {
				pending = false
				cs.fired = true
				cs.firedN = n
				return faultPlan(f, n)
			}
			if n > 0 {
				cs.boundaries = append(cs.boundaries, r.Pos+n)
			}
			return verifsim.ReadPlan{N: n}
		}
		if n == left && (sch.eofStyle == 1 || left == 0) {
			return verifsim.ReadPlan{N: n, Err: io.EOF}
		}
		if n > 0 && r.Pos+n < len(r.Data) {
			cs.boundaries = append(cs.boundaries, r.Pos+n)
		}
		return verifsim.ReadPlan{N: n}
	}
	return rd, cs
}

func faultPlan(f fault, n int) verifsim.ReadPlan {
	fe := faultErrors[f.errKind%len(faultErrors)]
	switch f.follow {
	case "transient":
		return verifsim.ReadPlan{N: n, Err: fmt.Errorf("%w at byte %d", verifsim.ErrTransient, f.at)}
	case "then-eof":
		return verifsim.ReadPlan{N: n, Err: fe, Then: io.EOF}
	default:
		return verifsim.ReadPlan{N: n, Err: fe}
	}
}

func interestingOffsets(data []byte, inside []uint8, cont []bool, starts []int) []int {
	var out []int
	add := func(o int) {
		if o > 0 && o < len(data) && (len(out) == 0 || out[len(out)-1] != o) {
			out = append(out, o)
		}
	}
	si := 0
	for i := 1; i < len(data); i++ {
		for si < len(starts) && starts[si] < i {
			si++
		}
		if cont[i] || inside[i] != inside[i-1] || (si < len(starts) && starts[si] == i) || i%1024 <= 1 || i%1024 >= 1021 {
			add(i)
		}
	}
	return out
}

// ---------------------------------------------------------------------------------
// the run

func (p Prop) Run(r *core.Run) *core.Violation {
	g := gen.New(r.T)
	g.Swarm()
	r.Sim.OrderMode = verifsim.OrderTape
	r.Sim.Activate()
	defer r.Sim.Deactivate()

	mode := r.T.Intn(8) // 0-3: fault-free chunking; 4-5: one sampled fault; 6: enumerate all faults (small doc); 7: big documents, fault-free
	big := mode == 7 || (mode < 4 && r.T.Intn(3) == 2)
	maxPol := 6
	if mode == 6 {
		maxPol = 3
		big = false
	}
	doc := genDocument(g, maxPol, big, true)
	enumLimit := 400
	if r.Tier == "thorough" {
		enumLimit = 1500 // also documents that span the internal buffer
		if mode == 6 && r.T.Intn(4) == 3 {
			doc = genDocument(g, 2, true, true)
		}
	}
	if mode == 6 && len(doc.data) > enumLimit {
		mode = 4
	}
	r.Logf("document (%d bytes, %d statements, damage=%q@%d): %q", len(doc.data), len(doc.texts), doc.damaged, doc.damageAt, clip(doc.data))
	inside, cont := classify(doc.data)
	interesting := interestingOffsets(doc.data, inside, cont, doc.starts)
	limit := len(doc.texts) + 3

	// reference: whole document through a bytes.Reader
	base := decodeAll(bytes.NewReader(doc.data), limit)
	r.Obs(len(base.policies), errStr(base.err))
	r.Logf("single-read result: %d policies, terminal error %q", len(base.policies), errStr(base.err))
	if v := p.checkWhole(r, doc, base); v != nil {
		return v
	}
	if v := p.checkPositions(r, doc, base.policies, doc.data); v != nil {
		return v
	}

	switch {
	case mode <= 3 || mode == 7:
		sch := schedule{style: r.T.Intn(4), eofStyle: r.T.Intn(2), reuseDst: r.T.Intn(3) == 2}
		return p.oneSchedule(r, doc, base, sch, fault{}, inside, cont, interesting, limit)
	case mode <= 5:
		f := fault{kind: []string{"err0", "errn", "eof"}[r.T.Intn(3)], at: r.T.Intn(len(doc.data) + 1), follow: []string{"sticky", "then-eof", "transient"}[r.T.Intn(3)], errKind: r.T.Intn(len(faultErrors))}
		sch := schedule{style: r.T.Intn(4), eofStyle: r.T.Intn(2), reuseDst: r.T.Intn(3) == 2}
		return p.oneSchedule(r, doc, base, sch, f, inside, cont, interesting, limit)
	default:
		// every byte position x every fault kind x every follow-up of this document
		r.Count("enumerated_documents")
		for at := 0; at <= len(doc.data); at++ {
			for _, k := range []string{"err0", "errn", "eof"} {
				follows := []string{"sticky", "then-eof", "transient"}
				if k == "eof" {
					follows = follows[:1]
				}
				for _, fo := range follows {
					sch := schedule{style: r.T.Intn(4), eofStyle: r.T.Intn(2), reuseDst: r.T.Intn(3) == 2}
					if v := p.oneSchedule(r, doc, base, sch, fault{kind: k, at: at, follow: fo, errKind: r.T.Intn(len(faultErrors))}, inside, cont, interesting, limit); v != nil {
						return v
					}
				}
			}
		}
		return nil
	}
}

func clip(b []byte) string {
	if len(b) > 1500 {
		return string(b[:700]) + "…[" + fmt.Sprint(len(b)-1400) + " bytes]…" + string(b[len(b)-700:])
	}
	return string(b)
}

func (p Prop) oneSchedule(r *core.Run, doc *document, base decoded, sch schedule, f fault, inside []uint8, cont []bool, interesting []int, limit int) *core.Violation {
	rd, cs := makeReader(r.T, doc.data, sch, f, interesting, r.Tracing)
	// hang detection is per decode: generous and proportional to the input, never per run
	r.Sim.Budget(2_000_000 + 2000*uint64(len(doc.data)))
	got := decodeAllInto(rd, limit, sch.reuseDst)
	r.Sim.Budget(50_000_000)
	r.Count("executions")
	if got.afterTerminal {
		return core.Violationf("decode-after-terminal", "decode-after-terminal", "%v (reader schedule style=%d fault=%s)", got.err, sch.style, f)
	}
	if r.Tracing {
		r.Logf("schedule style=%d eof=%d fault=%s: %d reads, max room %d", sch.style, sch.eofStyle, f, rd.Calls, rd.MaxRoom)
		for i, e := range rd.Log {
			if i > 300 {
				r.Logf("  ... %d more reads", len(rd.Log)-i)
				break
			}
			r.Logf("  Read(room=%d) -> n=%d err=%q (pos now %d)", e.Room, e.N, e.Err, e.Pos)
		}
		r.Logf("chunked result: %d policies, terminal error %q", len(got.policies), errStr(got.err))
	}
	r.Obs(len(got.policies), errStr(got.err), rd.Calls)

	// reach probes
	h := fnv.New64a()
	h.Write(doc.data)
	nontriv := false
	for _, b := range cs.boundaries {
		fmt.Fprintf(h, "|%d", b)
		switch inside[b] {
		case clsToken:
			cs.inTok++
		case clsString:
			cs.inStr++
		case clsComment:
			cs.inCom++
		}
		if cont[b] {
			// how many bytes of the rune were delivered before the boundary
			k := 1
			for b-k > 0 && cont[b-k] {
				k++
			}
			switch k {
			case 1:
				cs.inRune1++
			case 2:
				cs.inRune2++
			default:
				cs.inRune3++
			}
		}
	}
	if cs.inTok > 0 {
		r.Count("reach.boundary_inside_token")
		nontriv = true
	}
	if cs.inStr > 0 {
		r.Count("reach.boundary_inside_string")
		nontriv = true
	}
	if cs.inCom > 0 {
		r.Count("reach.boundary_inside_comment")
		nontriv = true
	}
	if cs.inRune1 > 0 {
		r.Count("reach.boundary_inside_rune_after_1_byte")
		nontriv = true
	}
	if cs.inRune2 > 0 {
		r.Count("reach.boundary_inside_rune_after_2_bytes")
		nontriv = true
	}
	if cs.inRune3 > 0 {
		r.Count("reach.boundary_inside_rune_after_3_bytes")
		nontriv = true
	}
	if rd.ZeroReads > 0 {
		r.Count("reach.zero_length_reads")
	}
	if rd.DataWithEOF > 0 {
		r.Count("reach.data_with_eof")
	}
	if len(doc.data) > rd.MaxRoom && rd.MaxRoom > 0 {
		r.Count("reach.document_longer_than_largest_read_buffer")
	}
	if rd.Calls > 2 && sch.style == 1 {
		r.Count("reach.refill_with_full_size_reads")
	}
	if doc.damaged != "" {
		r.Count("reach.damaged_document")
	}
	fmt.Fprintf(h, "|%s", f)
	if cs.fired || f.kind == "eof" {
		nontriv = true
		r.Count("fault." + f.kind + "_" + f.follow)
		if cs.fired && cs.firedN > 0 {
			r.Count("reach.fault_with_bytes")
		} else if cs.fired {
			r.Count("reach.fault_with_zero_bytes")
		}
		if f.at < len(doc.data) && cont[f.at] {
			r.Count("reach.fault_inside_rune")
		}
	}
	if nontriv {
		r.Nontrivial(h.Sum64())
	}
	if r.T.Pos()%97 == 0 || r.Tracing {
		r.Quiet(func() {
			r.Sample(map[string]any{"document_bytes": len(doc.data), "statements": len(doc.texts), "damage": doc.damaged, "reads": rd.Calls, "fault": f.String(), "schedule_style": sch.style,
				"boundaries_inside_token_string_comment_rune": []int{cs.inTok, cs.inStr, cs.inCom, cs.inRune1 + cs.inRune2 + cs.inRune3}, "policies": len(got.policies), "terminal_error": errStr(got.err), "document_head": clipN(doc.data, 160)})
		})
	}

	switch {
	case f.kind == "eof":
		// truncation is not a fault for the oracle: expect exactly the result of the truncated document
		want := decodeAll(bytes.NewReader(doc.data[:f.at]), limit)
		if ok, why := samePolicies(got.policies, want.policies); !ok {
			return core.Violationf("truncation-differs", "truncation-differs", "document truncated at %d by early EOF: %s", f.at, why)
		}
		if errStr(got.err) != errStr(want.err) {
			return core.Violationf("truncation-differs", "truncation-differs", "document truncated at %d: terminal error %q, whole-slice decode of the truncated bytes gives %q", f.at, errStr(got.err), errStr(want.err))
		}
		if v := p.checkPositions(r, doc, got.policies, doc.data[:f.at]); v != nil {
			return v
		}
	case cs.fired:
		// oracle 4 (deliberately narrow relaxation)
		if got.err == nil || got.err == io.EOF {
			return core.Violationf("read-failure-swallowed", "read-failure-swallowed", "reader failed (%s) but the decoder reported %q after yielding %d policies", f, errStr(got.err), len(got.policies))
		}
		if len(got.policies) > len(base.policies) {
			return core.Violationf("read-failure-extra-policies", "read-failure-extra-policies", "reader failed (%s): %d policies yielded, fault-free result has %d", f, len(got.policies), len(base.policies))
		}
		if ok, why := samePolicies(got.policies, base.policies[:len(got.policies)]); !ok {
			return core.Violationf("read-failure-wrong-policy", "read-failure-wrong-policy", "reader failed (%s): yielded policies are not a prefix of the fault-free result: %s", f, why)
		}
	default:
		// fault-free (or the fault position was never reached): exact equality with the single-read result
		if ok, why := samePolicies(got.policies, base.policies); !ok {
			return core.Violationf("chunking-changes-policies", "chunking-changes-policies", "chunked delivery changes the result: %s", why)
		}
		if errStr(got.err) != errStr(base.err) {
			return core.Violationf("chunking-changes-error", "chunking-changes-error", "chunked delivery changes the terminal error: %q vs single read %q", errStr(got.err), errStr(base.err))
		}
	}
	return nil
}

func clipN(b []byte, n int) string {
	if len(b) > n {
		return string(b[:n]) + "…"
	}
	return string(b)
}

// checkWhole: agreement between the stream decoder (single read) and whole-slice parsing,
// and with statement-by-statement parsing of the generator's texts.
func (p Prop) checkWhole(r *core.Run, doc *document, base decoded) *core.Violation {
	list, lerr := cedar.NewPolicyListFromBytes("", doc.data)
	if (lerr == nil) != (base.err == io.EOF) {
		return core.Violationf("stream-vs-slice", "stream-vs-slice", "whole-slice parse error %q but stream decoder ended with %q", errStr(lerr), errStr(base.err))
	}
	if lerr == nil {
		if ok, why := samePolicies(base.policies, []*cedar.Policy(list)); !ok {
			return core.Violationf("stream-vs-slice", "stream-vs-slice", "stream decoder and whole-slice parse disagree: %s", why)
		}
		if doc.damaged == "" && len(list) != len(doc.texts) {
			return core.Violationf("statement-count", "statement-count", "document of %d statements parsed into %d policies", len(doc.texts), len(list))
		}
	} else {
		if !strings.Contains(lerr.Error(), errStr(base.err)) {
			return core.Violationf("stream-vs-slice", "stream-vs-slice", "stream terminal error %q is not contained in whole-slice error %q", errStr(base.err), lerr.Error())
		}
		if doc.damaged == "" {
			r.Count("gen.undamaged_parse_failure")
			r.Logf("NOTE: undamaged generated document failed to parse: %v", lerr)
			for _, tx := range doc.texts {
				var single cedar.Policy
				if err := single.UnmarshalCedar([]byte(tx)); err != nil {
					r.Logf("NOTE-STMT: %v: %s", err, tx)
				}
			}
		}
	}
	// statement-by-statement reference (only meaningful for undamaged prefixes)
	for i, pol := range base.policies {
		if i >= len(doc.texts) {
			break
		}
		if doc.damaged != "" && doc.damageAt <= doc.starts[i]+len(doc.texts[i])+1 {
			break
		}
		var single cedar.Policy
		if err := single.UnmarshalCedar([]byte(doc.texts[i])); err != nil {
			break
		}
		if !bytes.Equal(single.MarshalCedar(), pol.MarshalCedar()) {
			return core.Violationf("statement-differs", "statement-differs", "statement %d decoded from the document renders as %q, parsed alone as %q", i, pol.MarshalCedar(), single.MarshalCedar())
		}
	}
	return nil
}

// modelPosition computes offset/line/column of byte offset off from the bytes alone.
func modelPosition(data []byte, off int) (line, col int) {
	line = 1
	last := 0
	for i := 0; i < off && i < len(data); i++ {
		if data[i] == '\n' {
			line++
			last = i + 1
		}
	}
	col = 1 + utf8.RuneCount(data[last:off])
	return
}

func (p Prop) checkPositions(r *core.Run, doc *document, pols []*cedar.Policy, data []byte) *core.Violation {
	n := 0
	for i, pol := range pols {
		if i >= len(doc.starts) {
			break
		}
		if doc.damaged != "" && doc.damageAt <= doc.starts[i] {
			break // offsets after the damage are shifted; not modelled
		}
		off := doc.starts[i]
		line, col := modelPosition(data, off)
		pos := pol.Position()
		if pos.Offset != off || pos.Line != line || pos.Column != col || pos.Filename != "" {
			return core.Violationf("position-wrong", "position-wrong", "policy %d: decoder reports %+v, first token is at offset %d line %d column %d", i, pos, off, line, col)
		}
		n++
	}
	if n == 0 {
		return nil
	}
	r.Count("reach.positions_checked")
	// the same positions must be what authorization diagnostics report
	ps := cedar.NewPolicySet()
	want := map[cedar.PolicyID]cedar.Position{}
	for i := 0; i < n; i++ {
		id := cedar.PolicyID(fmt.Sprintf("p%d", i))
		ps.Add(id, pols[i])
		want[id] = pols[i].Position()
	}
	g := gen.New(r.T)
	g.ErrBias = 0
	req := g.Request()
	ents := stdEntities
	_, diag := cedar.Authorize(ps, ents, req)
	for _, rs := range diag.Reasons {
		if rs.Position != want[rs.PolicyID] {
			return core.Violationf("diagnostic-position", "diagnostic-position", "reason for %s reports %+v, policy position is %+v", rs.PolicyID, rs.Position, want[rs.PolicyID])
		}
		r.Count("reach.reason_positions_checked")
	}
	for _, e := range diag.Errors {
		if e.Position != want[e.PolicyID] {
			return core.Violationf("diagnostic-position", "diagnostic-position", "error for %s reports %+v, policy position is %+v", e.PolicyID, e.Position, want[e.PolicyID])
		}
		r.Count("reach.error_positions_checked")
	}
	// the batch authorizer reports the same positions (no variables: one callback)
	berr := batch.Authorize(context.Background(), ps, ents, batch.Request{Principal: req.Principal, Action: req.Action, Resource: req.Resource, Context: req.Context, Variables: batch.Variables{}}, func(res batch.Result) error {
		for _, rs := range res.Diagnostic.Reasons {
			if rs.Position != want[rs.PolicyID] {
				return fmt.Errorf("batch reason for %s reports %+v, policy position is %+v", rs.PolicyID, rs.Position, want[rs.PolicyID])
			}
		}
		for _, e := range res.Diagnostic.Errors {
			if e.Position != want[e.PolicyID] {
				return fmt.Errorf("batch error for %s reports %+v, policy position is %+v", e.PolicyID, e.Position, want[e.PolicyID])
			}
			r.Count("reach.batch_error_positions_checked")
		}
		return nil
	})
	if berr != nil {
		return core.Violationf("diagnostic-position", "diagnostic-position-batch", "%v", berr)
	}
	// and with a file name, through the whole-slice loader
	if doc.damaged == "" && len(data) == len(doc.data) {
		set, err := cedar.NewPolicySetFromBytes("doc.cedar", data)
		if err == nil {
			_, diag := cedar.Authorize(set, ents, req)
			chk := func(id cedar.PolicyID, pos cedar.Position) *core.Violation {
				var i int
				if _, err := fmt.Sscanf(string(id), "policy%d", &i); err != nil || i >= len(doc.starts) {
					return core.Violationf("loader-id", "loader-id", "unexpected policy id %q from NewPolicySetFromBytes", id)
				}
				line, col := modelPosition(data, doc.starts[i])
				if pos.Filename != "doc.cedar" || pos.Offset != doc.starts[i] || pos.Line != line || pos.Column != col {
					return core.Violationf("diagnostic-position", "diagnostic-position-file", "diagnostic for %s reports %+v, statement %d is at offset %d line %d column %d of doc.cedar", id, pos, i, doc.starts[i], line, col)
				}
				return nil
			}
			for _, rs := range diag.Reasons {
				if v := chk(rs.PolicyID, rs.Position); v != nil {
					return v
				}
			}
			for _, e := range diag.Errors {
				if v := chk(e.PolicyID, e.Position); v != nil {
					return v
				}
			}
		}
	}
	return nil
}

var stdEntities = func() types.EntityMap {
	em := types.EntityMap{}
	mk := func(t, id string, parents []types.EntityUID, attrs types.RecordMap, tags types.RecordMap) {
		u := types.NewEntityUID(types.EntityType(t), types.String(id))
		em[u] = types.Entity{UID: u, Parents: types.NewEntityUIDSet(parents...), Attributes: types.NewRecord(attrs), Tags: types.NewRecord(tags)}
	}
	ga := types.NewEntityUID("Group", "a")
	gb := types.NewEntityUID("Group", "b")
	mk("Group", "a", nil, nil, nil)
	mk("Group", "b", []types.EntityUID{ga}, nil, nil)
	for _, id := range gen.IDs {
		mk("User", id, []types.EntityUID{gb}, types.RecordMap{"a": types.True, "name": types.String("é日本🙂"), "b": types.Long(1)}, nil)
		mk("Doc", id, []types.EntityUID{ga}, types.RecordMap{"na me": types.Long(1), "a": types.String("x")}, types.RecordMap{"k": types.String("v")})
		mk("Action", id, nil, nil, nil)
	}
	return em
}()
