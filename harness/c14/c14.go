// Package c14: results are deterministic functions of their inputs – independent of map
// iteration order, insertion order and repetition.  See DESIGN.md §4 (C14).
package c14

import (
	"bytes"
	"context"
	"encoding/json"
	"fmt"
	"hash/fnv"
	"iter"
	"sort"
	"strings"

	cedar "github.com/cedar-policy/cedar-go"
	"github.com/cedar-policy/cedar-go/internal/verifsim"
	"github.com/cedar-policy/cedar-go/types"
	"github.com/cedar-policy/cedar-go/verifharness/core"
	"github.com/cedar-policy/cedar-go/verifharness/fixtures"
	"github.com/cedar-policy/cedar-go/verifharness/gen"
	"github.com/cedar-policy/cedar-go/x/exp/batch"
	"github.com/cedar-policy/cedar-go/x/exp/schema"
	"github.com/cedar-policy/cedar-go/x/exp/schema/resolved"
	exptypes "github.com/cedar-policy/cedar-go/x/exp/types"
)

type Prop struct{}

func (Prop) ID() string     { return "C14" }
func (Prop) Level() string  { return "exploration" }
func (Prop) QuickRuns() int { return 1800 }

// CrossProcessRuns: encodings must be byte-identical between processes too.
func (Prop) CrossProcessRuns() int { return 400 }
func (Prop) Rule() string {
	return "each run = one generated scenario (1-5 policies, entity store, request, batch template, values, one repository schema fixture) observed twice: under the canonical schedule (sorted map iteration everywhere, policies/entities inserted in generation order) and under one tape-chosen schedule (per map-iteration event: canonical / reverse / rotation / shuffle; permuted insertion order with repetitions; permuted custom PolicyIterator). Observables: authorize decision + reason set + error set with messages (PolicySet, PolicyMap and custom iterator), batch results as a multiset, every text/JSON encoding, and decode-under-schedule + re-encode. Non-trivial iff at least one map-iteration event with >=2 keys was served in non-canonical order or the insertion order was permuted; distinct = distinct hash of (scenario tape, schedule hash)."
}
func (Prop) Assumptions() []string {
	return []string{
		"every order RangeMap can produce is an order the Go specification allows for the replaced range statement, so any difference between schedules is a genuine dependence on iteration or insertion order",
		"inputs are built once and shared by both schedules (read-only operations do not mutate them: C19)",
		"encoding/json and fmt sort map keys themselves, so the standard library leaks no map order",
		"validator/resolver diagnostics and x/exp/dot output are not observed (not named by the property)",
	}
}
func (Prop) Components() (real, stub []string) {
	return []string{"cedar.Authorize, PolicySet, Policy/PolicyList/PolicySet codecs, Encoder/Decoder", "internal/eval, internal/json, internal/parser", "types (values, entities, JSON)", "x/exp/batch", "x/exp/schema (+internal/json, internal/parser)"},
		[]string{"map iteration order at every range / maps.* site (verifsim.RangeMap)", "insertion order of policies and entities", "custom PolicyIterator"}
}

type scenario struct {
	ids          []cedar.PolicyID
	texts        []string
	pols         []*cedar.Policy
	polJSON      [][]byte
	setJSON      []byte
	ents         types.EntityMap
	entList      []types.Entity
	entJSON      []byte
	req          types.Request
	vals         []types.Value
	valJSON      [][]byte
	breq         batch.Request
	schema       *fixtures.Schema
	schemaJS     []byte
	doc          []byte // a document of 0-14 statements (ids policy0..n-1 when loaded)
	docN         int
	resolved     *resolved.Schema
	dirtyEntJSON []byte // another entity map / request, decoded first into reused receivers
	dirtyReqJSON []byte
	schema2      *fixtures.Schema // another schema, held by a reused Schema value before
}

var dirtyRecord = types.NewRecord(types.RecordMap{"role": types.String("admin"), "a": types.Long(7)})

var idPool = []cedar.PolicyID{"p0", "p1", "p10", "p2", "a", "B", "policy0", "é"}

func genScenario(r *core.Run) *scenario {
	g := gen.New(r.T)
	g.Swarm()
	sc := &scenario{}
	// bias: record literals with >=2 erroring fields, `in [non-entities]`, >=2 annotations
	special := []string{
		`permit (principal, action, resource) when { {a: 1 + "x", b: principal.missing, name: -"s"}.a };`,
		`permit (principal, action, resource) when { principal in [1, "two", true] };`,
		`@b("2") @a("1") @id("x") permit (principal, action, resource) when { {b: 1, a: 2, "na me": 3} == context };`,
		`forbid (principal, action, resource) when { {b: context.b, a: context.a}.a };`,
		`permit (principal, action, resource) when { resource in [context.a, context.b, context.name] };`,
		`permit (principal, action, resource) when { [{a: 1, b: 2}, {b: 2, a: 1}].containsAll([context]) };`,
	}
	n := 1 + r.T.Intn(5)
	used := map[cedar.PolicyID]bool{}
	for i := 0; i < n; i++ {
		var txt string
		if r.T.Intn(3) == 2 {
			txt = special[r.T.Intn(len(special))]
		} else {
			txt = g.PolicyText()
		}
		var p cedar.Policy
		if err := p.UnmarshalCedar([]byte(txt)); err != nil {
			r.Count("gen.policy_parse_failure")
			continue
		}
		id := idPool[r.T.Intn(len(idPool))]
		if used[id] {
			id = cedar.PolicyID(fmt.Sprintf("%s_%d", id, i))
		}
		used[id] = true
		sc.ids = append(sc.ids, id)
		sc.texts = append(sc.texts, txt)
		sc.pols = append(sc.pols, &p)
		js, err := p.MarshalJSON()
		if err != nil {
			panic(core.Machinery{Msg: "policy MarshalJSON failed: " + err.Error()})
		}
		sc.polJSON = append(sc.polJSON, js)
	}
	// sometimes the very same policy object is registered under a second id
	if len(sc.ids) > 0 && r.T.Intn(4) == 3 {
		i := r.T.Intn(len(sc.ids))
		sc.ids = append(sc.ids, sc.ids[i]+"-alias")
		sc.texts = append(sc.texts, sc.texts[i])
		sc.pols = append(sc.pols, sc.pols[i])
		sc.polJSON = append(sc.polJSON, sc.polJSON[i])
	}
	ps := cedar.NewPolicySet()
	for i, id := range sc.ids {
		ps.Add(id, sc.pols[i])
	}
	sc.setJSON, _ = ps.MarshalJSON()
	sc.ents = g.Entities()
	keys := make([]string, 0, len(sc.ents))
	byKey := map[string]types.Entity{}
	for k, e := range sc.ents {
		keys = append(keys, k.String())
		byKey[k.String()] = e
	}
	sort.Strings(keys)
	for _, k := range keys {
		sc.entList = append(sc.entList, byKey[k])
	}
	sc.entJSON, _ = json.Marshal(sc.ents)
	sc.dirtyEntJSON, _ = json.Marshal(g.Entities())
	dq := g.Request()
	dq.Context = types.NewRecord(types.RecordMap{"role": types.String("admin"), "a": types.True})
	sc.dirtyReqJSON, _ = json.Marshal(dq)
	sc.req = g.Request()
	nv := 1 + r.T.Intn(3)
	for i := 0; i < nv; i++ {
		v := g.Value(2)
		sc.vals = append(sc.vals, v)
		b, _ := json.Marshal(v)
		sc.valJSON = append(sc.valJSON, b)
	}
	// batch template: principal variable and a context record that uses a variable
	ctx := types.RecordMap{}
	for k, v := range sc.req.Context.All() {
		ctx[k] = v
	}
	vars := batch.Variables{}
	sc.breq = batch.Request{Principal: sc.req.Principal, Action: sc.req.Action, Resource: sc.req.Resource}
	if r.T.Bool() {
		sc.breq.Principal = batch.Variable("p")
		vars["p"] = []types.Value{g.UID(), g.UID()}
	}
	if r.T.Bool() {
		sc.breq.Resource = batch.Variable("r")
		vars["r"] = []types.Value{g.UID(), g.UID(), g.UID()}
	}
	switch r.T.Intn(4) {
	case 1:
		ctx[types.String(gen.Attrs[r.T.Intn(len(gen.Attrs))])] = batch.Variable("c")
		vars["c"] = []types.Value{g.Value(1), g.Value(1)}
	case 2:
		ctx["a"] = batch.Variable("c")
		ctx["b"] = batch.Variable("c")
		vars["c"] = []types.Value{g.Value(1), g.Value(1)}
	case 3:
		ctx["a"] = types.NewSet(batch.Variable("c"), types.Long(1))
		ctx["b"] = types.NewRecord(types.RecordMap{"a": batch.Variable("d")})
		vars["c"] = []types.Value{g.Value(0), g.Value(0)}
		vars["d"] = []types.Value{g.Value(0), g.Value(0)}
	}
	sc.breq.Context = types.NewRecord(ctx)
	sc.breq.Variables = vars
	// a document to be loaded with NewPolicySetFromBytes: same contents as a set built by Add
	sc.docN = r.T.Intn(15)
	var db bytes.Buffer
	for i := 0; i < sc.docN; i++ {
		if len(sc.texts) > 0 && r.T.Intn(3) == 2 {
			db.WriteString(sc.texts[r.T.Intn(len(sc.texts))])
		} else {
			fmt.Fprintf(&db, "@idx(\"%d\") permit (principal, action == Action::\"%s\", resource);", i, gen.IDs[r.T.Intn(len(gen.IDs))])
		}
		db.WriteString("\n")
	}
	sc.doc = db.Bytes()
	sc.schema2 = fixtures.Pick(r.T)
	sc.schema = fixtures.Pick(r.T)
	if sc.schema != nil {
		var s schema.Schema
		if err := s.UnmarshalCedar(sc.schema.Cedar); err == nil {
			sc.schemaJS, _ = s.MarshalJSON()
			if rs, err := s.Resolve(); err == nil {
				sc.resolved = rs
			}
		}
	}
	return sc
}

type obs struct {
	name string
	val  string
}

type orderedPolicies struct {
	ids  []cedar.PolicyID
	pols []*cedar.Policy
}

func (o orderedPolicies) All() iter.Seq2[cedar.PolicyID, *cedar.Policy] {
	return func(yield func(cedar.PolicyID, *cedar.Policy) bool) {
		for i := range o.ids {
			if !yield(o.ids[i], o.pols[i]) {
				return
			}
		}
	}
}

func diagString(dec cedar.Decision, d cedar.Diagnostic) string {
	var rs, es []string
	for _, r := range d.Reasons {
		rs = append(rs, fmt.Sprintf("%s@%+v", r.PolicyID, r.Position))
	}
	for _, e := range d.Errors {
		es = append(es, fmt.Sprintf("%s@%+v:%s", e.PolicyID, e.Position, e.Message))
	}
	sort.Strings(rs)
	sort.Strings(es)
	return fmt.Sprintf("%v reasons=%q errors=%q", dec, rs, es)
}

func valuesString(v batch.Values) string {
	keys := make([]string, 0, len(v))
	for k := range v {
		keys = append(keys, string(k))
	}
	sort.Strings(keys)
	var sb strings.Builder
	for _, k := range keys {
		fmt.Fprintf(&sb, "%s=%s;", k, gen.Canon(v[types.String(k)]))
	}
	return sb.String()
}

// perm draws a permutation of n from the schedule tape (identity when canonical).
func perm(s *verifsim.Tape, n int, canonical bool) []int {
	p := make([]int, n)
	for i := range p {
		p[i] = i
	}
	if canonical {
		return p
	}
	for i := 0; i < n-1; i++ {
		j := i + s.Intn(n-i)
		p[i], p[j] = p[j], p[i]
	}
	return p
}

// observe computes every observable under the schedule currently installed in r.Sim.
func observe(r *core.Run, sc *scenario, canonical bool) (out []obs, permuted bool, direct *core.Violation) {
	add := func(name, val string) { out = append(out, obs{name, val}) }
	S := r.S
	// insertion order (with repetition)
	pp := perm(S, len(sc.ids), canonical)
	for i, x := range pp {
		if x != i {
			permuted = true
		}
	}
	ps := cedar.NewPolicySet()
	pm := cedar.PolicyMap{}
	it := orderedPolicies{}
	for _, i := range pp {
		ps.Add(sc.ids[i], sc.pols[i])
		pm[sc.ids[i]] = sc.pols[i]
		it.ids = append(it.ids, sc.ids[i])
		it.pols = append(it.pols, sc.pols[i])
	}
	if !canonical && len(sc.ids) > 0 && S.Intn(3) == 2 {
		i := S.Intn(len(sc.ids))
		ps.Add(sc.ids[i], sc.pols[i]) // repetition
		permuted = true
	}
	ep := perm(S, len(sc.entList), canonical)
	ents := types.EntityMap{}
	for _, i := range ep {
		ents[sc.entList[i].UID] = sc.entList[i]
	}

	dec, diag := cedar.Authorize(ps, ents, sc.req)
	a1 := diagString(dec, diag)
	add("authorize(PolicySet)", a1)
	dec, diag = cedar.Authorize(pm, ents, sc.req)
	a2 := diagString(dec, diag)
	add("authorize(PolicyMap)", a2)
	dec, diag = cedar.Authorize(it, ents, sc.req)
	a3 := diagString(dec, diag)
	add("authorize(custom iterator)", a3)
	// the same request against the same policies and entities, asked again and through
	// another container: the answer may not depend on what was evaluated before
	dec, diag = cedar.Authorize(ps, ents, sc.req)
	a4 := diagString(dec, diag)
	if (a1 != a2 || a1 != a3 || a1 != a4) && direct == nil {
		direct = core.Violationf("repeated-call-differs", "repeated-call-differs:authorize", "the same request against the same policies and entities gave different answers within one pass\n  PolicySet:        %s\n  PolicyMap:        %s\n  custom iterator:  %s\n  PolicySet again:  %s", clip(a1), clip(a2), clip(a3), clip(a4))
	}
	if b, err := json.Marshal(diag); err == nil {
		_ = b // Diagnostic JSON keeps evaluation order of reasons; compared as a set above
	}

	// batch
	var results []string
	err := batch.Authorize(context.Background(), ps, ents, sc.breq, func(res batch.Result) error {
		results = append(results, valuesString(res.Values)+" -> "+diagString(res.Decision, res.Diagnostic)+" req="+requestString(res.Request))
		return nil
	})
	sort.Strings(results)
	add("batch.Authorize", fmt.Sprintf("err=%v results=%q", err != nil, results))

	// encodings
	for i, p := range sc.pols {
		add(fmt.Sprintf("Policy.MarshalCedar[%d]", i), string(p.MarshalCedar()))
		b, _ := p.MarshalJSON()
		add(fmt.Sprintf("Policy.MarshalJSON[%d]", i), string(b))
		var buf bytes.Buffer
		if err := cedar.NewEncoder(&buf).Encode(p); err != nil {
			buf.WriteString("ERR")
		}
		add(fmt.Sprintf("Encoder.Encode[%d]", i), buf.String())
	}
	add("PolicyList.MarshalCedar", string(cedar.PolicyList(sc.pols).MarshalCedar()))
	add("PolicySet.MarshalCedar", string(ps.MarshalCedar()))
	b, _ := ps.MarshalJSON()
	add("PolicySet.MarshalJSON", string(b))
	for i, v := range sc.vals {
		add(fmt.Sprintf("Value.MarshalCedar[%d]", i), string(v.MarshalCedar()))
		add(fmt.Sprintf("Value.String[%d]", i), v.String())
		b, _ := json.Marshal(v)
		add(fmt.Sprintf("Value.MarshalJSON[%d]", i), string(b))
	}
	b, _ = json.Marshal(ents)
	add("EntityMap.MarshalJSON", string(b))
	if len(sc.entList) > 0 {
		b, _ = json.Marshal(sc.entList[0])
		add("Entity.MarshalJSON", string(b))
	}
	b, _ = json.Marshal(sc.req)
	add("Request.MarshalJSON", string(b))

	// the bytes one encoding call returned stay what they were while other objects are encoded
	{
		var held [][]byte
		var copies []string
		for _, p := range sc.pols {
			o := p.MarshalCedar()
			held, copies = append(held, o), append(copies, string(o))
			if j, err := p.MarshalJSON(); err == nil {
				held, copies = append(held, j), append(copies, string(j))
			}
		}
		for _, v := range sc.vals {
			o := v.MarshalCedar()
			held, copies = append(held, o), append(copies, string(o))
		}
		o := ps.MarshalCedar()
		held, copies = append(held, o), append(copies, string(o))
		for i := range held {
			if string(held[i]) != copies[i] && direct == nil {
				direct = core.Violationf("output-aliased", "output-aliased", "bytes returned by an encoder changed while other objects were encoded: %q, were %q", clip(string(held[i])), clip(copies[i]))
			}
		}
	}

	// encoding the same object again, after it has been through the other encoders, gives the
	// same bytes (an encoder must not leave traces in what it encodes)
	for i, p := range sc.pols {
		c1 := p.MarshalCedar()
		j1, _ := p.MarshalJSON()
		c2 := p.MarshalCedar()
		j2, _ := p.MarshalJSON()
		if (!bytes.Equal(c1, c2) || !bytes.Equal(j1, j2)) && direct == nil {
			direct = core.Violationf("re-encoding-differs", "re-encoding-differs:Policy", "policy %d encodes differently the second time (Cedar text equal: %v, JSON equal: %v)", i, bytes.Equal(c1, c2), bytes.Equal(j1, j2))
		}
	}
	{
		c1 := ps.MarshalCedar()
		j1, _ := ps.MarshalJSON()
		c2 := ps.MarshalCedar()
		j2, _ := ps.MarshalJSON()
		if (!bytes.Equal(c1, c2) || !bytes.Equal(j1, j2)) && direct == nil {
			direct = core.Violationf("re-encoding-differs", "re-encoding-differs:PolicySet", "the policy set encodes differently the second time")
		}
		e1, _ := json.Marshal(ents)
		e2, _ := json.Marshal(ents)
		if !bytes.Equal(e1, e2) && direct == nil {
			direct = core.Violationf("re-encoding-differs", "re-encoding-differs:EntityMap", "the entity map encodes differently the second time")
		}
	}
	for i, v := range sc.vals {
		c1 := v.MarshalCedar()
		j1, _ := json.Marshal(v)
		s1 := v.String()
		c2 := v.MarshalCedar()
		j2, _ := json.Marshal(v)
		if (!bytes.Equal(c1, c2) || !bytes.Equal(j1, j2) || s1 != v.String()) && direct == nil {
			direct = core.Violationf("re-encoding-differs", "re-encoding-differs:Value", "value %d encodes differently the second time", i)
		}
	}
	if sc.schema != nil {
		var s schema.Schema
		if err := s.UnmarshalCedar(sc.schema.Cedar); err == nil {
			c1, e1 := s.MarshalCedar()
			j1, e2 := s.MarshalJSON()
			c2, e3 := s.MarshalCedar()
			j2, e4 := s.MarshalJSON()
			_, _ = s.Resolve()
			c3, e5 := s.MarshalCedar()
			if e1 == nil && e2 == nil && e3 == nil && e4 == nil && e5 == nil && (!bytes.Equal(c1, c2) || !bytes.Equal(j1, j2) || !bytes.Equal(c1, c3)) && direct == nil {
				direct = core.Violationf("re-encoding-differs", "re-encoding-differs:Schema", "schema %s encodes differently after it has been encoded in the other format / resolved\n  first:  %s\n  second: %s", sc.schema.Name, clip(string(c1)), clip(string(c2)))
			}
		}
	}

	// decoding is a function of the bytes, not of what the destination held before
	{
		var fresh, dirty types.EntityMap
		if json.Unmarshal(sc.entJSON, &fresh) == nil {
			_ = json.Unmarshal(sc.dirtyEntJSON, &dirty)
			if json.Unmarshal(sc.entJSON, &dirty) == nil {
				b1, _ := json.Marshal(fresh)
				b2, _ := json.Marshal(dirty)
				if !bytes.Equal(b1, b2) && direct == nil {
					direct = core.Violationf("decode-depends-on-receiver", "decode-depends-on-receiver:EntityMap", "decoding the same entity JSON into a fresh variable and into one that held other entities gives different results\n  fresh: %s\n  dirty: %s", clip(string(b1)), clip(string(b2)))
				}
			}
		}
		var rq1, rq2 types.Request
		rb, _ := json.Marshal(sc.req)
		if json.Unmarshal(rb, &rq1) == nil {
			_ = json.Unmarshal(sc.dirtyReqJSON, &rq2)
			if json.Unmarshal(rb, &rq2) == nil {
				b1, _ := json.Marshal(rq1)
				b2, _ := json.Marshal(rq2)
				if !bytes.Equal(b1, b2) && direct == nil {
					direct = core.Violationf("decode-depends-on-receiver", "decode-depends-on-receiver:Request", "decoding the same request JSON into a fresh variable and into a used one gives different results\n  fresh: %s\n  dirty: %s", clip(string(b1)), clip(string(b2)))
				}
			}
		}
		for i, js := range sc.valJSON {
			if rec, ok := sc.vals[i].(types.Record); ok {
				_ = rec
				var f2 types.Record
				d2 := dirtyRecord
				if f2.UnmarshalJSON(js) == nil && d2.UnmarshalJSON(js) == nil {
					b1, _ := json.Marshal(f2)
					b2, _ := json.Marshal(d2)
					if !bytes.Equal(b1, b2) && direct == nil {
						direct = core.Violationf("decode-depends-on-receiver", "decode-depends-on-receiver:Record", "decoding %s into a fresh Record and into a used one gives different results: %s vs %s", js, b1, b2)
					}
				}
			}
		}
	}

	// a Schema value that held (and encoded) another schema before gives the same encodings as
	// a fresh one
	if sc.schema != nil && sc.schema2 != nil && sc.schemaJS != nil {
		var fresh, used schema.Schema
		if fresh.UnmarshalJSON(sc.schemaJS) == nil && used.UnmarshalCedar(sc.schema2.Cedar) == nil {
			_, _ = used.MarshalCedar()
			_, _ = used.MarshalJSON()
			_, _ = used.Resolve()
			if used.UnmarshalJSON(sc.schemaJS) == nil {
				c1, e1 := fresh.MarshalCedar()
				c2, e2 := used.MarshalCedar()
				j1, e3 := fresh.MarshalJSON()
				j2, e4 := used.MarshalJSON()
				if e1 == nil && e2 == nil && e3 == nil && e4 == nil && (!bytes.Equal(c1, c2) || !bytes.Equal(j1, j2)) && direct == nil {
					direct = core.Violationf("decode-depends-on-receiver", "decode-depends-on-receiver:Schema", "decoding schema %s (JSON) into a fresh Schema and into one that held %s before gives different encodings\n  fresh: %s\n  used:  %s", sc.schema.Name, sc.schema2.Name, clip(string(c1)), clip(string(c2)))
				}
			}
			// and the other way round: Cedar text into a value that held JSON-decoded content
			var used2 schema.Schema
			if used2.UnmarshalJSON(sc.schemaJS) == nil {
				_, _ = used2.MarshalJSON()
				_, _ = used2.MarshalCedar()
				var fresh2 schema.Schema
				if used2.UnmarshalCedar(sc.schema2.Cedar) == nil && fresh2.UnmarshalCedar(sc.schema2.Cedar) == nil {
					c1, e1 := fresh2.MarshalCedar()
					c2, e2 := used2.MarshalCedar()
					j1, e3 := fresh2.MarshalJSON()
					j2, e4 := used2.MarshalJSON()
					if e1 == nil && e2 == nil && e3 == nil && e4 == nil && (!bytes.Equal(c1, c2) || !bytes.Equal(j1, j2)) && direct == nil {
						direct = core.Violationf("decode-depends-on-receiver", "decode-depends-on-receiver:Schema", "decoding schema %s (Cedar text) into a fresh Schema and into a used one gives different encodings", sc.schema2.Name)
					}
				}
			}
		}
	}

	// the same contents reached through different construction histories must encode identically
	if loaded, err := cedar.NewPolicySetFromBytes("doc.cedar", sc.doc); err == nil {
		added := cedar.NewPolicySet()
		for _, i := range perm(S, sc.docN, canonical) {
			id := cedar.PolicyID(fmt.Sprintf("policy%d", i))
			added.Add(id, loaded.Get(id))
		}
		// ids that sort between auto-numbered ids as text but not as numbers
		for k, extra := range []cedar.PolicyID{"policy1_old", "policy1a", "policy01", "Policy9"} {
			if len(sc.pols) > 0 && (sc.docN+k)%2 == 0 {
				loaded.Add(extra, sc.pols[0])
				added.Add(extra, sc.pols[0])
			}
		}
		lj, _ := loaded.MarshalJSON()
		aj, _ := added.MarshalJSON()
		lc, ac := loaded.MarshalCedar(), added.MarshalCedar()
		add("PolicySet.MarshalCedar(loaded document)", string(lc))
		add("PolicySet.MarshalJSON(loaded document)", string(lj))
		if !bytes.Equal(lc, ac) && direct == nil {
			direct = core.Violationf("construction-history", "construction-history:MarshalCedar", "a set loaded from a %d-statement document and a set holding the same policies under the same ids built with Add encode differently\n  loaded: %s\n  added:  %s", sc.docN, clip(string(lc)), clip(string(ac)))
		}
		if !bytes.Equal(lj, aj) && direct == nil {
			direct = core.Violationf("construction-history", "construction-history:MarshalJSON", "a set loaded from a document and the same contents built with Add give different JSON")
		}
	} else if sc.docN > 0 {
		add("PolicySet(loaded document)", "ERR")
	}

	// decode the same bytes under this schedule, re-encode
	for i, js := range sc.polJSON {
		var p cedar.Policy
		if err := p.UnmarshalJSON(js); err != nil {
			add(fmt.Sprintf("policy JSON->JSON[%d]", i), "ERR")
			continue
		}
		b, _ := p.MarshalJSON()
		add(fmt.Sprintf("policy JSON->JSON[%d]", i), string(b))
		add(fmt.Sprintf("policy JSON->Cedar text[%d]", i), string(p.MarshalCedar()))
		d2, g2 := cedar.Authorize(cedar.PolicyMap{"x": &p}, ents, sc.req)
		add(fmt.Sprintf("authorize(policy decoded from JSON)[%d]", i), diagString(d2, g2))
	}
	for i, txt := range sc.texts {
		var p cedar.Policy
		if err := p.UnmarshalCedar([]byte(txt)); err != nil {
			add(fmt.Sprintf("policy text->JSON[%d]", i), "ERR")
			continue
		}
		b, _ := p.MarshalJSON()
		add(fmt.Sprintf("policy text->JSON[%d]", i), string(b))
		add(fmt.Sprintf("policy text->text[%d]", i), string(p.MarshalCedar()))
	}
	{
		var ps2 cedar.PolicySet
		if err := ps2.UnmarshalJSON(sc.setJSON); err != nil {
			add("policy set JSON->JSON", "ERR")
		} else {
			b, _ := ps2.MarshalJSON()
			add("policy set JSON->JSON", string(b))
			add("policy set JSON->Cedar text", string(ps2.MarshalCedar()))
			d2, g2 := cedar.Authorize(&ps2, ents, sc.req)
			add("authorize(policy set decoded from JSON)", diagString(d2, g2))
		}
	}
	{
		var em types.EntityMap
		if err := json.Unmarshal(sc.entJSON, &em); err != nil {
			add("entities JSON->JSON", "ERR")
		} else {
			b, _ := json.Marshal(em)
			add("entities JSON->JSON", string(b))
		}
	}
	for i, js := range sc.valJSON {
		var v types.Value
		if err := types.UnmarshalJSON(js, &v); err != nil {
			add(fmt.Sprintf("value JSON->JSON[%d]", i), "ERR")
			continue
		}
		b, _ := json.Marshal(v)
		add(fmt.Sprintf("value JSON->JSON[%d]", i), string(b))
		add(fmt.Sprintf("value JSON->Cedar text[%d]", i), string(v.MarshalCedar()))
	}
	if sc.resolved != nil && sc.schema.Entities != nil {
		// schema-aware entity decoding (coercion rebuilds values), then re-encoding
		var em exptypes.EntityMap
		if err := em.UnmarshalJSONWithSchema(sc.schema.Entities, sc.resolved); err != nil {
			add("entities JSON->(schema-aware decode)->JSON", "ERR")
		} else {
			b, err := json.Marshal(types.EntityMap(em))
			add("entities JSON->(schema-aware decode)->JSON", okOrErr(b, err))
		}
	}
	if sc.schema != nil {
		var s schema.Schema
		if err := s.UnmarshalCedar(sc.schema.Cedar); err != nil {
			add("schema text->text", "ERR")
		} else {
			b, err := s.MarshalCedar()
			add("schema text->text", okOrErr(b, err))
			b, err = s.MarshalJSON()
			add("schema text->JSON", okOrErr(b, err))
		}
		if sc.schemaJS != nil {
			var s2 schema.Schema
			if err := s2.UnmarshalJSON(sc.schemaJS); err != nil {
				add("schema JSON->JSON", "ERR")
			} else {
				b, err := s2.MarshalJSON()
				add("schema JSON->JSON", okOrErr(b, err))
				b, err = s2.MarshalCedar()
				add("schema JSON->text", okOrErr(b, err))
			}
		}
	}
	return out, permuted, direct
}

func okOrErr(b []byte, err error) string {
	if err != nil {
		return "ERR"
	}
	return string(b)
}

func requestString(q types.Request) string {
	return fmt.Sprintf("%s|%s|%s|%s", q.Principal, q.Action, q.Resource, gen.Canon(q.Context))
}

func (p Prop) Run(r *core.Run) *core.Violation {
	// the scenario itself (incl. the reference encodings it carries) is built under the
	// canonical schedule: with the simulator inactive Go's own map randomisation would
	// leak into the inputs whenever the code under test is order dependent
	r.Sim.OrderMode = verifsim.OrderCanonical
	r.Sim.Activate()
	sc := genScenario(r)
	r.Sim.Deactivate()
	if r.Tracing {
		r.Quiet(func() {
			for i := range sc.ids {
				r.Logf("policy %s: %s", sc.ids[i], sc.texts[i])
			}
			r.Logf("entities: %s", sc.entJSON)
			b, _ := json.Marshal(sc.req)
			r.Logf("request: %s", b)
			r.Logf("batch request: P=%v A=%v R=%v C=%s vars=%s", sc.breq.Principal, sc.breq.Action, sc.breq.Resource, sc.breq.Context.MarshalCedar(), varsString(sc.breq.Variables))
			for i, v := range sc.valJSON {
				r.Logf("value %d: %s", i, v)
			}
			if sc.schema != nil {
				r.Logf("schema fixture: %s", sc.schema.Name)
			}
		})
	}
	sim := r.Sim
	sim.OrderMode = verifsim.OrderCanonical
	sim.Activate()
	sim.Budget(200_000_000) // two observation passes over ~80 observables
	base, _, d1 := observe(r, sc, true)
	baseEvents := sim.IterEvents
	sim.OrderMode = verifsim.OrderTape
	alt, permuted, d2 := observe(r, sc, false)
	sim.Deactivate()
	if d1 != nil {
		return d1
	}
	if d2 != nil {
		return d2
	}
	_ = baseEvents
	if sim.IterPermuted > 0 || permuted {
		h := fnv.New64a()
		for _, v := range r.T.Rec {
			fmt.Fprintf(h, "%d,", v)
		}
		r.Nontrivial(verifsim.Mix(h.Sum64(), sim.SchedHash))
	}
	if permuted {
		r.Count("reach.insertion_order_permuted")
	}
	if sim.IterPermuted > 0 {
		r.Count("reach.runs_with_non_canonical_iteration")
	}
	if r.T.Pos()%53 == 0 || r.Tracing {
		r.Quiet(func() {
			r.Sample(map[string]any{"policies": sc.texts, "ids": sc.ids, "observables": len(base), "iteration_events_ge2": sim.IterEvents, "non_canonical": sim.IterPermuted, "insertion_permuted": permuted, "schema": schemaName(sc)})
		})
	}
	if len(base) != len(alt) {
		return core.Violationf("observable-count", "observable-count", "number of observables differs between schedules: %d vs %d", len(base), len(alt))
	}
	for i := range base {
		r.Obs(base[i].name, base[i].val)
		if base[i].name != alt[i].name || base[i].val != alt[i].val {
			name := stripIndex(base[i].name)
			r.Logf("DIFFERENCE in %s\n  canonical schedule: %s\n  other schedule:     %s", base[i].name, base[i].val, alt[i].val)
			return core.Violationf("differs:"+name, "differs:"+name, "%s depends on iteration/insertion order\n  canonical schedule: %s\n  other schedule:     %s", base[i].name, clip(base[i].val), clip(alt[i].val))
		}
	}
	return nil
}

func clip(s string) string {
	if len(s) > 1200 {
		return s[:1200] + "…"
	}
	return s
}

func schemaName(sc *scenario) string {
	if sc.schema == nil {
		return ""
	}
	return sc.schema.Name
}

func varsString(v batch.Variables) string {
	keys := make([]string, 0, len(v))
	for k := range v {
		keys = append(keys, string(k))
	}
	sort.Strings(keys)
	var sb strings.Builder
	for _, k := range keys {
		fmt.Fprintf(&sb, "%s=[", k)
		for _, x := range v[types.String(k)] {
			sb.Write(x.MarshalCedar())
			sb.WriteString(" ")
		}
		sb.WriteString("] ")
	}
	return sb.String()
}

func stripIndex(s string) string {
	if i := strings.LastIndex(s, "["); i > 0 && strings.HasSuffix(s, "]") {
		return s[:i]
	}
	return s
}

// Refine names the iteration site(s) whose order matters: after minimisation the schedule
// tape is all zeros except for the events that are needed for the difference.
func (p Prop) Refine(v *core.Violation, t, s []uint32, exec func(t, s []uint32) (*core.Violation, *core.Run)) *core.Violation {
	if !strings.HasPrefix(v.Kind, "differs:") {
		return v // direct violations (re-encoding, construction history) are not schedule dependent
	}
	verifsim.RecordEventsDefault = true
	defer func() { verifsim.RecordEventsDefault = false }()
	nv, run := exec(t, s)
	if nv == nil || nv.Kind != v.Kind {
		return v
	}
	// Several sites left: try each one alone (all events of the other sites canonical).
	// This only names the culprit; the replay file keeps the tapes found by minimisation.
	perm := map[int]bool{}
	for _, e := range run.Sim.EventLog {
		if e.Permuted {
			perm[e.Site] = true
		}
	}
	if len(perm) > 1 {
		sites := make([]int, 0, len(perm))
		for k := range perm {
			sites = append(sites, k)
		}
		sort.Ints(sites)
		rec := run.S.Snapshot()
		for _, only := range sites {
			// rebuild the schedule tape: draws that are not iteration events (insertion
			// permutations) and the events of the chosen site stay, every other event
			// becomes a single 0 (= canonical)
			var ns []uint32
			ptr := 0
			for _, e := range run.Sim.EventLog {
				if e.Start < ptr || e.End > len(rec) {
					continue
				}
				ns = append(ns, rec[ptr:e.Start]...)
				if e.Site == only {
					ns = append(ns, rec[e.Start:e.End]...)
				} else {
					ns = append(ns, 0)
				}
				ptr = e.End
			}
			ns = append(ns, rec[ptr:]...)
			if cv, crun := exec(t, ns); cv != nil && cv.Kind == v.Kind {
				single := true
				for _, e := range crun.Sim.EventLog {
					if e.Permuted && e.Site != only {
						single = false
					}
				}
				if single {
					nv, run = cv, crun
					break
				}
			}
		}
	}
	seen := map[string]bool{}
	var names []string
	for _, id := range run.Sim.LastSites {
		n := core.SiteName(id)
		if !seen[n] {
			seen[n] = true
			names = append(names, n)
		}
	}
	sort.Strings(names)
	where := "insertion-order"
	if len(names) > 0 {
		where = strings.Join(names, "+")
	}
	full := where
	if len(names) > 2 {
		// minimisation ran out of budget before isolating the site: keep the signature
		// stable and leave the candidates in the message
		where = "unresolved-sites"
	}
	out := *nv
	out.Sig = nv.Sig + "@" + where
	out.Msg = nv.Msg + "\n  iteration sites served in non-canonical order in the minimised schedule: " + full
	return &out
}
