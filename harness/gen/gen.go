// Package gen holds the tape-driven workload generators shared by the property
// harnesses: Cedar policy text, values, entity stores, requests.  Every generator
// consumes only the tape; 0 is always the simplest alternative.
package gen

import (
	"fmt"
	"sort"
	"strconv"
	"strings"

	"github.com/cedar-policy/cedar-go/internal/verifsim"
	"github.com/cedar-policy/cedar-go/types"
)

type G struct {
	T *verifsim.Tape
	// Bias knobs (swarm parameters, drawn per run by the harness)
	ErrBias  int  // 0..3: how often ill-typed sub-expressions are produced
	NoExt    bool // no extension calls
	RecBias  int  // 0..3: how often record literals / context access appear
	MaxDepth int
	Uni      bool // allow non-ASCII text in strings and comments
}

func New(t *verifsim.Tape) *G { return &G{T: t, MaxDepth: 3, ErrBias: 1, RecBias: 1} }

// Swarm draws the generator's knobs from the tape.
func (g *G) Swarm() {
	g.ErrBias = g.T.Intn(4)
	g.RecBias = g.T.Intn(4)
	g.NoExt = g.T.Intn(4) == 1
	g.MaxDepth = 2 + g.T.Intn(3)
	g.Uni = g.T.Intn(3) != 1
}

var (
	EntityTypes = []string{"User", "Group", "Doc", "Action"}
	IDs         = []string{"a", "b", "c", "d"}
	AbsentID    = "zz"
	Attrs       = []string{"a", "b", "name", "na me"}
	asciiStrs   = []string{"", "a", "alice", "na me", "a*b", "x\\y", "q\"uote", "tab\there", "new\nline", "1", "true", "User::\"a\"", "10.0.0.1", "127.0.0.1", "1.5", "1h", "2024-01-01"}
	uniStrs     = []string{"é", "日本", "🙂", "a b", " ", "ź"}
	longs       = []int64{0, 1, 2, -1, 3, 4, 100, 9223372036854775807, -9223372036854775808}
	ips         = []string{"127.0.0.1", "10.0.0.0/8", "::1", "192.168.1.77", "ff00::/8", "10.1.2.3/32"}
	decimals    = []string{"0.0001", "1.0", "-1.5", "922337203685477.5807", "0.0"}
	datetimes   = []string{"1970-01-01T00:00:00.001Z", "2024-01-01", "2024-02-29T12:34:56Z", "1969-12-31T23:59:59.999Z"}
	durations   = []string{"1ms", "1h", "-1d2h", "0ms", "1d1h1m1s1ms"}
	patterns    = []string{"*", "a*", "*e", "a\\*b", "al*ce", "**", "na me"}
)

func pick[T any](g *G, xs []T) T { return xs[g.T.Intn(len(xs))] }

// QuoteCedar renders s as a Cedar string literal (with escapes).
func QuoteCedar(s string) string {
	var sb strings.Builder
	sb.WriteByte('"')
	for _, r := range s {
		switch r {
		case '"':
			sb.WriteString(`\"`)
		case '\\':
			sb.WriteString(`\\`)
		case '\n':
			sb.WriteString(`\n`)
		case '\r':
			sb.WriteString(`\r`)
		case '\t':
			sb.WriteString(`\t`)
		case 0:
			sb.WriteString(`\0`)
		default:
			if r < 0x20 || r == 0x7f {
				fmt.Fprintf(&sb, `\u{%x}`, r)
			} else {
				sb.WriteRune(r)
			}
		}
	}
	sb.WriteByte('"')
	return sb.String()
}

func (g *G) Str() string {
	if g.Uni && g.T.Intn(4) == 3 {
		return pick(g, uniStrs)
	}
	return pick(g, asciiStrs)
}

func (g *G) StrLit() string {
	s := g.Str()
	// occasionally use the \u{..} escape form
	if g.T.Intn(8) == 7 && s != "" {
		var sb strings.Builder
		sb.WriteByte('"')
		for _, r := range s {
			fmt.Fprintf(&sb, `\u{%x}`, r)
		}
		sb.WriteByte('"')
		return sb.String()
	}
	return QuoteCedar(s)
}

// CollidingUIDs are entity uids built to coincide in naive renderings: type+"::"+id is
// the same text for the first two, type+id for the last two (which also collide in the
// internal hash).
var CollidingUIDs = []types.EntityUID{
	types.NewEntityUID("A", "B::C"), types.NewEntityUID("A::B", "C"),
	types.NewEntityUID("A", "bc"), types.NewEntityUID("Ab", "c"),
}

func (g *G) UID() types.EntityUID {
	if g.T.Intn(24) == 23 {
		return pick(g, CollidingUIDs)
	}
	t := pick(g, EntityTypes)
	id := pick(g, IDs)
	if g.T.Intn(12) == 11 {
		id = AbsentID
	}
	return types.NewEntityUID(types.EntityType(t), types.String(id))
}

func (g *G) UIDLit() string {
	u := g.UID()
	return string(u.Type) + "::" + QuoteCedar(string(u.ID))
}

func (g *G) attrName() string { return pick(g, Attrs) }

func attrKey(a string) string {
	if isIdent(a) {
		return a
	}
	return QuoteCedar(a)
}

func isIdent(s string) bool {
	if s == "" {
		return false
	}
	for i, c := range s {
		if !(c == '_' || (c >= 'a' && c <= 'z') || (c >= 'A' && c <= 'Z') || (i > 0 && c >= '0' && c <= '9')) {
			return false
		}
	}
	switch s {
	case "true", "false", "if", "then", "else", "in", "like", "has", "is", "__cedar":
		return false
	}
	return true
}

func access(e, a string) string {
	if isIdent(a) {
		return e + "." + a
	}
	return e + "[" + QuoteCedar(a) + "]"
}

// Kind of expression wanted.
type Kind int

const (
	KBool Kind = iota
	KLong
	KString
	KEntity
	KSet
	KRecord
	KExt
	KAny
	nKinds
)

func (g *G) wrongKind(k Kind) Kind {
	// ErrBias 0: never; 1: 1/16; 2: 1/8; 3: 1/4
	if g.ErrBias == 0 {
		return k
	}
	den := 32 >> g.ErrBias
	if g.T.Intn(den) == den-1 {
		return Kind(g.T.Intn(int(nKinds)))
	}
	return k
}

// Expr produces the text of a Cedar expression of (mostly) the wanted kind.
func (g *G) Expr(k Kind, depth int) string {
	k = g.wrongKind(k)
	if k == KAny {
		k = Kind(g.T.Intn(int(KAny)))
	}
	leaf := depth >= g.MaxDepth
	switch k {
	case KBool:
		return g.boolExpr(depth, leaf)
	case KLong:
		return g.longExpr(depth, leaf)
	case KString:
		return g.stringExpr(depth, leaf)
	case KEntity:
		return g.entityExpr(depth, leaf)
	case KSet:
		return g.setExpr(depth, leaf)
	case KRecord:
		return g.recordExpr(depth, leaf)
	case KExt:
		return g.extExpr(depth, leaf)
	}
	return "true"
}

func (g *G) boolExpr(d int, leaf bool) string {
	if leaf {
		switch g.T.Intn(4) {
		case 0:
			return "true"
		case 1:
			return "false"
		case 2:
			return access("context", g.attrName())
		default:
			return "(context has " + attrKey(g.attrName()) + ")"
		}
	}
	n := 22
	if g.NoExt {
		n = 19
	}
	switch g.T.Intn(n) {
	case 0:
		return "true"
	case 1:
		return "false"
	case 2:
		return "(" + g.Expr(KAny, d+1) + " == " + g.Expr(KAny, d+1) + ")"
	case 3:
		return "(" + g.Expr(KAny, d+1) + " != " + g.Expr(KAny, d+1) + ")"
	case 4:
		op := pick(g, []string{"<", "<=", ">", ">="})
		return "(" + g.Expr(KLong, d+1) + " " + op + " " + g.Expr(KLong, d+1) + ")"
	case 5:
		return "(" + g.Expr(KBool, d+1) + " && " + g.Expr(KBool, d+1) + ")"
	case 6:
		return "(" + g.Expr(KBool, d+1) + " || " + g.Expr(KBool, d+1) + ")"
	case 7:
		return "(!" + g.Expr(KBool, d+1) + ")"
	case 8:
		return "(if " + g.Expr(KBool, d+1) + " then " + g.Expr(KBool, d+1) + " else " + g.Expr(KBool, d+1) + ")"
	case 9:
		if g.T.Bool() {
			return "(" + g.Expr(KEntity, d+1) + " in " + g.Expr(KEntity, d+1) + ")"
		}
		return "(" + g.Expr(KEntity, d+1) + " in " + g.Expr(KSet, d+1) + ")"
	case 10:
		return "(" + g.Expr(KString, d+1) + " like " + QuotePattern(pick(g, patterns)) + ")"
	case 11:
		t := pick(g, EntityTypes)
		if g.T.Bool() {
			return "(" + g.Expr(KEntity, d+1) + " is " + t + ")"
		}
		if g.T.Intn(3) == 2 {
			return "(" + g.Expr(KEntity, d+1) + " is " + t + " in " + access(g.Expr(KEntity, d+1), g.attrName()) + ")"
		}
		return "(" + g.Expr(KEntity, d+1) + " is " + t + " in " + g.Expr(KEntity, d+1) + ")"
	case 12:
		if g.T.Bool() {
			return "(" + g.Expr(KEntity, d+1) + " has " + attrKey(g.attrName()) + ")"
		}
		return "(" + g.Expr(KRecord, d+1) + " has " + attrKey(g.attrName()) + ")"
	case 13:
		m := pick(g, []string{"contains", "containsAll", "containsAny"})
		arg := KSet
		if m == "contains" {
			arg = KAny
		}
		return g.Expr(KSet, d+1) + "." + m + "(" + g.Expr(arg, d+1) + ")"
	case 14:
		return g.Expr(KSet, d+1) + ".isEmpty()"
	case 15:
		return g.Expr(KEntity, d+1) + ".hasTag(" + g.Expr(KString, d+1) + ")"
	case 16:
		return access(g.Expr(KRecord, d+1), g.attrName())
	case 17:
		return access("context", g.attrName())
	case 18:
		return access(g.Expr(KEntity, d+1), g.attrName())
	case 19:
		m := pick(g, []string{"isIpv4", "isIpv6", "isLoopback", "isMulticast"})
		return g.ipExpr(d+1) + "." + m + "()"
	case 20:
		return g.ipExpr(d+1) + ".isInRange(" + g.ipExpr(d+1) + ")"
	default:
		m := pick(g, []string{"lessThan", "lessThanOrEqual", "greaterThan", "greaterThanOrEqual"})
		return g.decExpr(d+1) + "." + m + "(" + g.decExpr(d+1) + ")"
	}
}

// QuotePattern renders a pattern source (where * is a wildcard and \* a literal star)
// as a Cedar pattern literal.
func QuotePattern(p string) string {
	q := QuoteCedar(strings.ReplaceAll(p, `\*`, "\x01"))
	return strings.ReplaceAll(q, `\u{1}`, `\*`)
}

func (g *G) longExpr(d int, leaf bool) string {
	if leaf {
		if g.T.Intn(4) == 3 {
			return access("context", g.attrName())
		}
		return g.longLit()
	}
	switch g.T.Intn(8) {
	case 0:
		return g.longLit()
	case 1:
		op := pick(g, []string{"+", "-", "*"})
		return "(" + g.Expr(KLong, d+1) + " " + op + " " + g.Expr(KLong, d+1) + ")"
	case 2:
		return "(-(" + g.Expr(KLong, d+1) + "))"
	case 3:
		return "(if " + g.Expr(KBool, d+1) + " then " + g.Expr(KLong, d+1) + " else " + g.Expr(KLong, d+1) + ")"
	case 4:
		return access(g.Expr(KEntity, d+1), g.attrName())
	case 5:
		return access(g.Expr(KRecord, d+1), g.attrName())
	case 6:
		return access("context", g.attrName())
	default:
		if g.NoExt {
			return g.longLit()
		}
		m := pick(g, []string{"toDays", "toHours", "toMinutes", "toSeconds", "toMilliseconds"})
		return g.durExpr(d+1) + "." + m + "()"
	}
}

func (g *G) longLit() string {
	v := pick(g, longs)
	if v == -9223372036854775808 {
		return "(-9223372036854775808)"
	}
	if v < 0 {
		return "(" + strconv.FormatInt(v, 10) + ")"
	}
	return strconv.FormatInt(v, 10)
}

func (g *G) stringExpr(d int, leaf bool) string {
	if leaf {
		return g.StrLit()
	}
	switch g.T.Intn(5) {
	case 0, 1:
		return g.StrLit()
	case 2:
		return access(g.Expr(KEntity, d+1), "name")
	case 3:
		return access("context", "name")
	default:
		return g.Expr(KEntity, d+1) + ".getTag(" + g.Expr(KString, d+1) + ")"
	}
}

func (g *G) entityExpr(d int, leaf bool) string {
	n := 7
	if leaf {
		n = 4
	}
	switch g.T.Intn(n) {
	case 0:
		return g.UIDLit()
	case 1:
		return "principal"
	case 2:
		return "resource"
	case 3:
		return "action"
	case 4:
		return access(g.Expr(KEntity, d+1), g.attrName())
	case 5:
		return access("context", g.attrName())
	default:
		return "(if " + g.Expr(KBool, d+1) + " then " + g.Expr(KEntity, d+1) + " else " + g.Expr(KEntity, d+1) + ")"
	}
}

func (g *G) setExpr(d int, leaf bool) string {
	if leaf && g.T.Bool() {
		return "[]"
	}
	switch g.T.Intn(4) {
	case 0, 1:
		n := g.T.Intn(4)
		k := Kind(g.T.Intn(int(KAny)))
		var parts []string
		for i := 0; i < n; i++ {
			kk := k
			if g.T.Intn(6) == 5 {
				kk = KAny
			}
			parts = append(parts, g.Expr(kk, d+1))
		}
		return "[" + strings.Join(parts, ", ") + "]"
	case 2:
		return access("context", g.attrName())
	default:
		return access(g.Expr(KEntity, d+1), g.attrName())
	}
}

func (g *G) recordExpr(d int, leaf bool) string {
	if g.T.Intn(4) == 3 {
		return "context"
	}
	n := g.T.Intn(4)
	if leaf {
		n = g.T.Intn(2)
	}
	var parts []string
	used := map[string]bool{}
	for i := 0; i < n; i++ {
		a := g.attrName()
		if used[a] {
			continue
		}
		used[a] = true
		parts = append(parts, attrKey(a)+": "+g.Expr(KAny, d+1))
	}
	return "{" + strings.Join(parts, ", ") + "}"
}

// extension constructors are applied to constants (folded when the policy is compiled) and,
// less often, to request-dependent strings (evaluated per request by the compiled evaluator)
func (g *G) extArg(lits []string) string {
	switch g.T.Intn(8) {
	case 6:
		return access("context", g.attrName())
	case 7:
		return access("principal", "name")
	}
	return QuoteCedar(pick(g, lits))
}
func (g *G) ipExpr(d int) string {
	if g.T.Intn(5) == 4 {
		return access("context", g.attrName())
	}
	return "ip(" + g.extArg(ips) + ")"
}
func (g *G) decExpr(d int) string {
	if g.T.Intn(5) == 4 {
		return access("context", g.attrName())
	}
	return "decimal(" + g.extArg(decimals) + ")"
}
func (g *G) durExpr(d int) string {
	if g.T.Intn(5) == 4 {
		return access("context", g.attrName())
	}
	return "duration(" + g.extArg(durations) + ")"
}
func (g *G) dtExpr(d int) string {
	return "datetime(" + g.extArg(datetimes) + ")"
}

func (g *G) extExpr(d int, leaf bool) string {
	if g.NoExt {
		return g.longLit()
	}
	switch g.T.Intn(7) {
	case 0:
		return g.ipExpr(d)
	case 1:
		return g.decExpr(d)
	case 2:
		return g.durExpr(d)
	case 3:
		return g.dtExpr(d)
	case 4:
		return g.dtExpr(d) + ".offset(" + g.durExpr(d) + ")"
	case 5:
		return g.dtExpr(d) + ".durationSince(" + g.dtExpr(d) + ")"
	default:
		return g.dtExpr(d) + "." + pick(g, []string{"toDate", "toTime"}) + "()"
	}
}

// Scope renders a scope clause for var v ("principal", "action", "resource").
func (g *G) Scope(v string) string {
	n := 6
	switch g.T.Intn(n) {
	case 0:
		return v
	case 1:
		return v + " == " + g.scopeUID(v)
	case 2:
		return v + " in " + g.scopeUID(v)
	case 3:
		if v == "action" {
			k := 1 + g.T.Intn(3)
			var parts []string
			for i := 0; i < k; i++ {
				parts = append(parts, g.scopeUID(v))
			}
			return v + " in [" + strings.Join(parts, ", ") + "]"
		}
		return v + " is " + pick(g, EntityTypes)
	case 4:
		if v == "action" {
			return v
		}
		return v + " is " + pick(g, EntityTypes) + " in " + g.scopeUID(v)
	default:
		return v
	}
}

func (g *G) scopeUID(v string) string {
	if v == "action" && g.T.Intn(4) != 3 {
		return "Action::" + QuoteCedar(pick(g, IDs))
	}
	return g.UIDLit()
}

// PolicyText produces one policy statement (without trailing newline).
func (g *G) PolicyText() string {
	var sb strings.Builder
	na := 0
	if g.T.Intn(3) == 2 {
		na = 1 + g.T.Intn(3)
	}
	used := map[string]bool{}
	for i := 0; i < na; i++ {
		k := pick(g, []string{"id", "note", "a", "b", "if", "in"})
		if used[k] {
			continue
		}
		used[k] = true
		sb.WriteString("@" + k + "(" + g.StrLit() + ") ")
	}
	if g.T.Intn(4) == 3 {
		sb.WriteString("forbid")
	} else {
		sb.WriteString("permit")
	}
	sb.WriteString(" (" + g.Scope("principal") + ", " + g.Scope("action") + ", " + g.Scope("resource") + ")")
	nc := g.T.Intn(3)
	for i := 0; i < nc; i++ {
		if g.T.Intn(4) == 3 {
			sb.WriteString(" unless { ")
		} else {
			sb.WriteString(" when { ")
		}
		sb.WriteString(g.Expr(KBool, 0))
		sb.WriteString(" }")
	}
	sb.WriteString(";")
	return sb.String()
}

// ---------------------------------------------------------------------------------
// values, entities, requests

// Value produces a random value; depth bounds nesting.
func (g *G) Value(depth int) types.Value {
	n := 12
	if depth <= 0 {
		n = 10
	}
	switch g.T.Intn(n) {
	case 0:
		return types.Boolean(g.T.Bool())
	case 1:
		return types.Long(pick(g, longs))
	case 2:
		return types.String(g.Str())
	case 3:
		return g.UID()
	case 4:
		return types.Long(g.T.Intn(5))
	case 5:
		d, _ := types.ParseDecimal(pick(g, decimals))
		return d
	case 6:
		ip, _ := types.ParseIPAddr(pick(g, ips))
		return ip
	case 7:
		if g.T.Intn(4) == 3 {
			// instants outside the years 0000..9999 and the extremes of the representation
			return types.NewDatetimeFromMillis(pick(g, []int64{253402300800000, 253402300800000 + 86400000*400, -62198755200001, -62167219200001, 9223372036854775807, -9223372036854775808, 4102444800000}))
		}
		dt, _ := types.ParseDatetime(pick(g, datetimes))
		return dt
	case 8:
		du, _ := types.ParseDuration(pick(g, durations))
		return du
	case 9:
		return types.String(pick(g, IDs))
	case 10:
		k := g.T.Intn(4)
		if k == 0 && g.T.Bool() {
			return types.Set{} // the zero value
		}
		vs := make([]types.Value, 0, k)
		for i := 0; i < k; i++ {
			vs = append(vs, g.Value(depth-1))
		}
		return types.NewSet(vs...)
	default:
		return g.Record(depth - 1)
	}
}

func (g *G) Record(depth int) types.Record {
	k := g.T.Intn(4)
	if k == 0 {
		switch g.T.Intn(3) {
		case 1:
			return types.Record{} // the zero value
		case 2:
			return types.NewRecord(nil)
		}
	}
	m := types.RecordMap{}
	for i := 0; i < k; i++ {
		m[types.String(g.attrName())] = g.Value(depth)
	}
	if g.T.Intn(8) == 7 {
		// a wide record: more attributes than any small fixed limit
		for _, f := range []types.String{"x1", "x2", "x3", "x4", "x5", "x6", "x7"} {
			m[f] = types.Long(len(f))
		}
	}
	return types.NewRecord(m)
}

// Entities produces an entity store over the small universe, with random parent edges
// (cycles and absent parents included).
func (g *G) Entities() types.EntityMap {
	em := types.EntityMap{}
	for _, t := range EntityTypes {
		for _, id := range IDs {
			if g.T.Intn(5) == 4 {
				continue // absent entity
			}
			uid := types.NewEntityUID(types.EntityType(t), types.String(id))
			np := g.T.Intn(3)
			var ps []types.EntityUID
			for i := 0; i < np; i++ {
				ps = append(ps, g.UID())
			}
			e := types.Entity{UID: uid, Parents: types.NewEntityUIDSet(ps...), Attributes: g.Record(1)}
			if g.T.Intn(3) == 2 {
				e.Tags = g.Record(1)
			}
			if g.T.Intn(10) == 9 {
				// zero-value members: no parents set, no attribute record at all
				e = types.Entity{UID: uid}
			}
			em[uid] = e
		}
	}
	// sometimes: entities whose uids coincide in naive renderings / in the internal hash
	if g.T.Intn(3) == 2 {
		for _, uid := range CollidingUIDs {
			if g.T.Intn(4) == 3 {
				continue
			}
			em[uid] = types.Entity{UID: uid, Parents: types.NewEntityUIDSet(g.UID()), Attributes: g.Record(0)}
		}
	}
	return em
}

func (g *G) Request() types.Request {
	return types.Request{
		Principal: g.UID(),
		Action:    types.NewEntityUID("Action", types.String(pick(g, IDs))),
		Resource:  g.UID(),
		Context:   g.Record(2),
	}
}

// Canon renders a value in a canonical form of the harness' own: set members sorted by
// their rendering, record keys sorted.  Two values are Equal iff their Canon strings are
// equal (scalars render through MarshalCedar, which is injective per type).
func Canon(v types.Value) string {
	switch t := v.(type) {
	case types.Set:
		var parts []string
		for m := range t.All() {
			parts = append(parts, Canon(m))
		}
		sort.Strings(parts)
		return "[" + strings.Join(parts, ", ") + "]"
	case types.Record:
		var keys []string
		for k := range t.Keys() {
			keys = append(keys, string(k))
		}
		sort.Strings(keys)
		var parts []string
		for _, k := range keys {
			x, _ := t.Get(types.String(k))
			parts = append(parts, strconv.Quote(k)+": "+Canon(x))
		}
		return "{" + strings.Join(parts, ", ") + "}"
	case nil:
		return "<nil>"
	default:
		return fmt.Sprintf("%T(%s)", v, v.MarshalCedar())
	}
}
