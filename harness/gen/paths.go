// Package gen: construction paths.
package gen

import (
	cedar "github.com/cedar-policy/cedar-go"
	"github.com/cedar-policy/cedar-go/ast"
	"github.com/cedar-policy/cedar-go/internal/verifsim"
)

// ParsePolicy parses policy text and then, by tape, hands the policy back through one of
// the other construction paths of the API (JSON decode, NewPolicyFromAST, a second text
// round trip): the same policy must behave the same however it was built.
func ParsePolicy(t *verifsim.Tape, txt string) (*cedar.Policy, string, error) {
	var p cedar.Policy
	if err := p.UnmarshalCedar([]byte(txt)); err != nil {
		return nil, "", err
	}
	switch t.Intn(6) {
	case 3:
		b, err := p.MarshalJSON()
		if err != nil {
			return &p, "text", nil
		}
		var q cedar.Policy
		if err := q.UnmarshalJSON(b); err != nil {
			return &p, "text", nil
		}
		return &q, "text->JSON->policy", nil
	case 4:
		a := *p.AST() // a copy of the AST header; NewPolicyFromAST compiles it again
		return cedar.NewPolicyFromAST((*ast.Policy)(&a)), "NewPolicyFromAST", nil
	case 5:
		var q cedar.Policy
		if err := q.UnmarshalCedar(p.MarshalCedar()); err != nil {
			return &p, "text", nil
		}
		return &q, "text->text->policy", nil
	}
	return &p, "text", nil
}
