package core

import (
	"bufio"
	"encoding/json"
	"flag"
	"fmt"
	"os"
	"os/exec"
	"path/filepath"
	"regexp"
	"runtime"
	"sort"
	"strconv"
	"strings"
	"sync"
	"time"

	"github.com/cedar-policy/cedar-go/internal/verifsim"
)

// Replay is the on-disk form of a (minimised) failing run.
type Replay struct {
	Property       string   `json:"property"`
	HarnessVersion int      `json:"harness_version"`
	Tier           string   `json:"tier"`
	Seed           uint64   `json:"seed"`
	Kind           string   `json:"kind"`
	Sig            string   `json:"sig"`
	Msg            string   `json:"msg"`
	T              []uint32 `json:"tape"`
	S              []uint32 `json:"schedule_tape"`
	Trace          []string `json:"trace"`
	OrigTapeLen    int      `json:"orig_tape_len"`
	OrigSchedLen   int      `json:"orig_schedule_tape_len"`
	ShrinkExecs    int      `json:"shrink_execs"`
	Note           string   `json:"note,omitempty"`
}

type workerMsg struct {
	Type   string  `json:"type"` // "violation" | "stats" | "digest" | "machinery"
	Replay *Replay `json:"replay,omitempty"`
	Stats  *Stats  `json:"stats,omitempty"`
	Run    uint64  `json:"run,omitempty"`
	Digest uint64  `json:"digest,omitempty"`
	Msg    string  `json:"msg,omitempty"`
}

type KnownFinding struct {
	Property  string `json:"property"`
	Signature string `json:"signature"`
	What      string `json:"what"`
	Status    string `json:"status"` // "known" | "fixed"
	Commit    string `json:"commit,omitempty"`
}

var props = map[string]Property{}

func Register(p Property) { props[p.ID()] = p }

var commands = map[string]func([]string) int{}

// RegisterCommand adds a subcommand to verifrun.
func RegisterCommand(name string, f func([]string) int) { commands[name] = f }

func propHash(id string) uint64 { return verifsim.MixString(7, id) }

func RunSeed(master uint64, prop string, w, i int) uint64 {
	return verifsim.Mix(master, propHash(prop), uint64(w), uint64(i))
}

func Main() {
	if len(os.Args) < 2 {
		fmt.Fprintln(os.Stderr, "usage: verifrun check|worker|replay ...")
		os.Exit(2)
	}
	defer func() {
		if x := recover(); x != nil {
			fmt.Fprintf(os.Stderr, "MACHINERY: %v\n", x)
			os.Exit(2)
		}
	}()
	switch os.Args[1] {
	case "check":
		os.Exit(cmdCheck(os.Args[2:]))
	case "worker":
		os.Exit(cmdWorker(os.Args[2:]))
	case "replay":
		os.Exit(cmdReplay(os.Args[2:]))
	case "trace":
		os.Exit(cmdTrace(os.Args[2:]))
	case "obsdump":
		os.Exit(cmdObsDump(os.Args[2:]))
	default:
		if f, ok := commands[os.Args[1]]; ok {
			os.Exit(f(os.Args[2:]))
		}
		fmt.Fprintln(os.Stderr, "unknown subcommand")
		os.Exit(2)
	}
}

// ---------------------------------------------------------------------------------
// worker

func cmdWorker(args []string) int {
	fs := flag.NewFlagSet("worker", flag.ExitOnError)
	propID := fs.String("prop", "", "")
	tier := fs.String("tier", "quick", "")
	seed := fs.Uint64("seed", 1, "")
	w := fs.Int("w", 0, "")
	budget := fs.Float64("budget", 0, "seconds (thorough)")
	runs := fs.Int("runs", 0, "override run count")
	digests := fs.Bool("digests", false, "print one digest line per run")
	announce := fs.Bool("announce", false, "announce every run on stderr before it starts (crash hunting)")
	traced := fs.Bool("traced", false, "run with tracing on (self test: logging must not perturb a run)")
	fs.Parse(args)
	p := props[*propID]
	if p == nil {
		fmt.Fprintln(os.Stderr, "unknown property", *propID)
		return 2
	}
	out := bufio.NewWriterSize(os.Stdout, 1<<16)
	defer out.Flush()
	emit := func(m workerMsg) {
		b, _ := json.Marshal(m)
		out.Write(b)
		out.WriteByte('\n')
		out.Flush()
	}
	st := NewStats()
	n := p.QuickRuns()
	if *runs > 0 {
		n = *runs
	}
	start := time.Now()
	timed := *tier == "thorough" && *budget > 0 && *runs == 0
	minimised := map[string]int{}
	var shrinkSpent time.Duration // bounds minimisation effort per worker; never affects what a run does
	if ex, ok := p.(Extra); ok && *w == 0 {
		ex.Exhaustive(*tier,
			func(name string, cases uint64) { st.Exhaustive[name] += cases },
			func(v *Violation, desc string) {
				st.Violations++
				emit(workerMsg{Type: "violation", Replay: &Replay{Property: p.ID(), HarnessVersion: HarnessVersion, Tier: *tier, Kind: v.Kind, Sig: v.Sig, Msg: v.Msg, Trace: []string{desc}, Note: "from the enumerated sub-space; replay by re-running the check"}})
			})
	}
	for i := 0; ; i++ {
		if timed {
			if i%16 == 0 && time.Since(start).Seconds() > *budget {
				break
			}
		} else if i >= n {
			break
		}
		rs := RunSeed(*seed, p.ID(), *w, i)
		if *announce {
			fmt.Fprintf(os.Stderr, "RUN %d %d\n", i, rs)
		}
		if i == 0 {
			st.FirstSeed = rs
		}
		st.LastSeed = rs
		v, r := Exec(p, *tier, rs, nil, nil, false, *traced)
		st.Absorb(r)
		if *digests {
			emit(workerMsg{Type: "digest", Run: uint64(i), Digest: r.Digest()})
		}
		if v == nil {
			continue
		}
		st.Violations++
		pre := v.Kind + "|" + v.Sig
		if minimised[pre] >= 3 || (shrinkSpent > 120*time.Second && minimised[pre] >= 1) || shrinkSpent > 300*time.Second {
			continue
		}
		minimised[pre]++
		shrinkStart := time.Now()
		t0, s0 := r.T.Snapshot(), r.S.Snapshot()
		mv, mt, ms, execs := Minimise(p, *tier, v, t0, s0, 3000, 20*time.Second)
		shrinkSpent += time.Since(shrinkStart)
		st.ShrinkExecs += uint64(execs)
		exec := func(t, s []uint32) (*Violation, *Run) { return Exec(p, *tier, 0, t, s, true, false) }
		mv = p.Refine(mv, mt, ms, exec)
		// traced re-execution of the minimised tapes
		fv, fr := Exec(p, *tier, rs, mt, ms, true, true)
		if fv == nil || fv.Kind != mv.Kind {
			emit(workerMsg{Type: "machinery", Msg: fmt.Sprintf("minimised tape of run seed %d does not reproduce (%v vs %v)", rs, fv, mv)})
			continue
		}
		emit(workerMsg{Type: "violation", Replay: &Replay{
			Property: p.ID(), HarnessVersion: HarnessVersion, Tier: *tier, Seed: rs, Kind: mv.Kind, Sig: mv.Sig, Msg: fv.Msg,
			T: mt, S: ms, Trace: fr.Trace, OrigTapeLen: len(t0), OrigSchedLen: len(s0), ShrinkExecs: execs,
		}})
	}
	st.Seal()
	emit(workerMsg{Type: "stats", Stats: st})
	return 0
}

// ---------------------------------------------------------------------------------
// replay

func cmdReplay(args []string) int {
	fs := flag.NewFlagSet("replay", flag.ExitOnError)
	file := fs.String("file", "", "")
	quiet := fs.Bool("quiet", false, "")
	fs.Parse(args)
	b, err := os.ReadFile(*file)
	if err != nil {
		fmt.Fprintln(os.Stderr, err)
		return 2
	}
	var rp Replay
	if err := json.Unmarshal(b, &rp); err != nil {
		fmt.Fprintln(os.Stderr, err)
		return 2
	}
	p := props[rp.Property]
	if p == nil {
		fmt.Fprintln(os.Stderr, "unknown property", rp.Property)
		return 2
	}
	if rp.T == nil && rp.S == nil && rp.Seed == 0 {
		fmt.Fprintln(os.Stderr, "replay file carries no tape (violation from an enumerated sub-space): re-run the check")
		return 2
	}
	v, r := Exec(p, rp.Tier, rp.Seed, rp.T, rp.S, true, true)
	if v != nil {
		exec := func(t, s []uint32) (*Violation, *Run) { return Exec(p, rp.Tier, 0, t, s, true, false) }
		v = p.Refine(v, r.T.Snapshot(), r.S.Snapshot(), exec)
	}
	if !*quiet {
		for _, l := range r.Trace {
			fmt.Println("  " + l)
		}
	}
	if v == nil {
		fmt.Printf("REPLAY property=%s result=no-violation\n", rp.Property)
		return 0
	}
	fmt.Printf("REPLAY property=%s result=violation kind=%s sig=%s\n%s\n", rp.Property, v.Kind, v.Sig, v.Msg)
	if v.Sig == rp.Sig {
		fmt.Printf("VIOLATION property=%s replay=%s\n", rp.Property, *file)
		return 1
	}
	fmt.Printf("REPLAY-MISMATCH expected sig=%s\n", rp.Sig)
	return 3
}

// cmdObsDump executes one run seed and prints one line per observable (name=hash).
func cmdObsDump(args []string) int {
	fs := flag.NewFlagSet("obsdump", flag.ExitOnError)
	propID := fs.String("prop", "", "")
	tier := fs.String("tier", "quick", "")
	runSeed := fs.Uint64("runseed", 0, "")
	fs.Parse(args)
	p := props[*propID]
	if p == nil {
		return 2
	}
	t := verifsim.NewTape(verifsim.Mix(*runSeed, 1))
	s := verifsim.NewTape(verifsim.Mix(*runSeed, 2))
	r := &Run{T: t, S: s, Tier: *tier, Prop: p.ID(), Seed: *runSeed, KeepObs: true}
	r.Sim = verifsim.NewSim(t, s)
	func() {
		defer func() { recover(); r.Sim.Deactivate() }()
		p.Run(r)
	}()
	for _, l := range r.ObsLog {
		fmt.Println(l)
	}
	fmt.Printf("digest=%016x\n", r.Digest())
	return 0
}

// cmdTrace executes one run (by worker/run index or by run seed) with tracing on.
func cmdTrace(args []string) int {
	fs := flag.NewFlagSet("trace", flag.ExitOnError)
	propID := fs.String("prop", "", "")
	tier := fs.String("tier", "quick", "")
	seed := fs.Uint64("seed", 1, "master seed")
	w := fs.Int("w", 0, "")
	i := fs.Int("i", 0, "")
	runSeed := fs.Uint64("runseed", 0, "explicit run seed (overrides -seed/-w/-i)")
	grep := fs.String("grep", "", "scan runs i.. until the trace contains this text")
	max := fs.Int("max", 1, "number of runs to scan")
	fs.Parse(args)
	p := props[*propID]
	if p == nil {
		return 2
	}
	for k := 0; k < *max; k++ {
		rs := *runSeed
		if rs == 0 {
			rs = RunSeed(*seed, p.ID(), *w, *i+k)
		}
		v, r := Exec(p, *tier, rs, nil, nil, false, true)
		hit := *grep == ""
		for _, l := range r.Trace {
			if *grep != "" && strings.Contains(l, *grep) {
				hit = true
			}
		}
		if !hit {
			continue
		}
		fmt.Printf("run w=%d i=%d seed=%d steps=%d\n", *w, *i+k, rs, r.Sim.Steps)
		for _, l := range r.Trace {
			fmt.Println("  " + l)
		}
		if v != nil {
			fmt.Printf("VIOLATION kind=%s sig=%s\n%s\n", v.Kind, v.Sig, v.Msg)
		}
		if *grep != "" {
			break
		}
	}
	return 0
}

// ---------------------------------------------------------------------------------
// parent

var sanitize = regexp.MustCompile(`[^A-Za-z0-9_.-]+`)

func cmdCheck(args []string) int {
	fs := flag.NewFlagSet("check", flag.ExitOnError)
	propID := fs.String("prop", "", "")
	tier := fs.String("tier", "quick", "")
	seed := fs.Uint64("seed", 1, "")
	workers := fs.Int("workers", runtime.NumCPU(), "")
	budget := fs.Float64("budget", 900, "seconds of exploration (thorough)")
	verif := fs.String("verif", "/verif", "")
	instr := fs.String("instr", "", "instrumentation summary line")
	runs := fs.Int("runs", 0, "")
	noEvidence := fs.Bool("no-evidence", false, "do not write evidence / replays (self tests)")
	raceBin := fs.String("racebin", "", "binary built with -race (C19 mode 3)")
	raceBudget := fs.Float64("racebudget", 15, "seconds of free-running execution under the race detector")
	fs.Parse(args)
	p := props[*propID]
	if p == nil {
		fmt.Fprintln(os.Stderr, "unknown property", *propID)
		return 2
	}
	start := time.Now()
	self, _ := os.Executable()
	type result struct {
		msgs []workerMsg
		err  error
		w    int
	}
	res := make([]result, *workers)
	var wg sync.WaitGroup
	for w := 0; w < *workers; w++ {
		wg.Add(1)
		go func(w int) {
			defer wg.Done()
			a := []string{"worker", "-prop", *propID, "-tier", *tier, "-seed", strconv.FormatUint(*seed, 10), "-w", strconv.Itoa(w), "-budget", fmt.Sprint(*budget)}
			if *runs > 0 {
				a = append(a, "-runs", strconv.Itoa(*runs))
			}
			cmd := exec.Command(self, a...)
			cmd.Stderr = os.Stderr
			// the process-local time zone is part of the environment the simulator owns: a
			// third of the workers run in UTC, the others east and west of it
			cmd.Env = append(os.Environ(), "GOMAXPROCS="+workerProcs(), "TZ="+[]string{"UTC", "Asia/Kolkata", "America/New_York"}[w%3])
			out, err := cmd.Output()
			r := result{err: err, w: w}
			sc := bufio.NewScanner(strings.NewReader(string(out)))
			sc.Buffer(make([]byte, 1<<20), 1<<30)
			for sc.Scan() {
				var m workerMsg
				if json.Unmarshal(sc.Bytes(), &m) == nil {
					r.msgs = append(r.msgs, m)
				}
			}
			res[w] = r
		}(w)
	}
	wg.Wait()
	total := NewStats()
	machinery := []string{}
	bySig := map[string]*Replay{}
	var firstSeeds, lastSeeds []uint64
	for _, r := range res {
		gotStats := false
		for _, m := range r.msgs {
			switch m.Type {
			case "stats":
				gotStats = true
				total.Merge(m.Stats)
				firstSeeds = append(firstSeeds, m.Stats.FirstSeed)
				lastSeeds = append(lastSeeds, m.Stats.LastSeed)
			case "violation":
				old := bySig[m.Replay.Sig]
				if old == nil || len(m.Replay.T)+len(m.Replay.S) < len(old.T)+len(old.S) {
					bySig[m.Replay.Sig] = m.Replay
				}
			case "machinery":
				machinery = append(machinery, m.Msg)
			}
		}
		if r.err != nil || !gotStats {
			// a worker died (fatal runtime error, stack overflow, concurrent map write):
			// hunt the run that kills it
			rp := huntCrash(self, p, *tier, *seed, r.w, *budget, *runs)
			if rp == nil {
				machinery = append(machinery, fmt.Sprintf("worker %d failed (%v) and the failure did not reproduce", r.w, r.err))
			} else {
				bySig[rp.Sig] = rp
			}
		}
	}
	extra := map[string]any{}
	if cp, ok := p.(CrossProcess); ok && cp.CrossProcessRuns() > 0 {
		rp, info, mach := crossProcess(self, p, *tier, *seed, cp.CrossProcessRuns())
		extra["cross_process_comparison"] = info
		if rp != nil {
			bySig[rp.Sig] = rp
		}
		machinery = append(machinery, mach...)
	}
	if *raceBin != "" {
		rp, info := runRaceMode(*raceBin, p, *seed, *raceBudget)
		extra["race_detector_mode"] = info
		if rp != nil {
			bySig[rp.Sig] = rp
		}
	}
	wall := time.Since(start).Seconds()

	// known findings
	var known []KnownFinding
	if b, err := os.ReadFile(filepath.Join(*verif, "known-findings.json")); err == nil {
		if err := json.Unmarshal(b, &known); err != nil {
			machinery = append(machinery, "known-findings.json: "+err.Error())
		}
	}
	sigs := make([]string, 0, len(bySig))
	for s := range bySig {
		sigs = append(sigs, s)
	}
	sort.Strings(sigs)
	exit := 0
	var knownSeen []string
	nviol := 0
	repDir := filepath.Join(*verif, "replays", p.ID())
	for _, s := range sigs {
		rp := bySig[s]
		var kf *KnownFinding
		for i := range known {
			if known[i].Property == p.ID() && known[i].Status == "known" && known[i].Signature == s {
				kf = &known[i]
			}
		}
		path := filepath.Join(repDir, sanitize.ReplaceAllString(s, "_")+".json")
		if len(path) > 200 {
			path = path[:200] + ".json"
		}
		if !*noEvidence {
			os.MkdirAll(repDir, 0o755)
			b, _ := json.MarshalIndent(rp, "", " ")
			os.WriteFile(path, b, 0o644)
		}
		// a violation must reproduce from its replay file in a fresh process
		if (rp.T != nil || rp.S != nil) && !*noEvidence && rp.Kind != "data-race" && rp.Kind != "cross-process" {
			out, _ := exec.Command(self, "replay", "-quiet", "-file", path).CombinedOutput()
			if !strings.Contains(string(out), "VIOLATION property="+p.ID()) {
				machinery = append(machinery, fmt.Sprintf("replay of %s did not reproduce: %s", path, lastLines(string(out), 5)))
				continue
			}
		}
		if kf != nil {
			fmt.Printf("KNOWN-FINDING: property=%s %s [sig=%s replay=%s]\n", p.ID(), kf.What, s, path)
			knownSeen = append(knownSeen, s)
			continue
		}
		nviol++
		exit = 1
		fmt.Printf("VIOLATION property=%s replay=%s\n", p.ID(), path)
		fmt.Printf("  kind=%s sig=%s\n  %s\n", rp.Kind, rp.Sig, firstLines(rp.Msg, 12))
	}
	if !*noEvidence {
		writeEvidence(p, *verif, *tier, *seed, total, wall, nviol, knownSeen, *instr, *workers, firstSeeds, lastSeeds, extra)
	}
	fmt.Printf("check %s tier=%s seed=%d workers=%d runs=%d distinct_nontrivial=%d violations=%d known=%d wall=%.1fs\n",
		p.ID(), *tier, *seed, *workers, total.Runs, total.DistinctCount(), nviol, len(knownSeen), wall)
	if len(machinery) > 0 {
		for _, m := range machinery {
			fmt.Fprintln(os.Stderr, "MACHINERY:", m)
		}
		// a violation that reproduced from its replay file stands; machinery trouble alone
		// is never reported as a violation
		if exit == 0 {
			return 2
		}
	}
	return exit
}

func workerProcs() string {
	if v := os.Getenv("VERIF_WORKER_GOMAXPROCS"); v != "" {
		return v
	}
	return "2"
}

func firstLines(s string, n int) string {
	l := strings.Split(s, "\n")
	if len(l) > n {
		l = l[:n]
	}
	return strings.Join(l, "\n  ")
}

func lastLines(s string, n int) string {
	l := strings.Split(strings.TrimSpace(s), "\n")
	if len(l) > n {
		l = l[len(l)-n:]
	}
	return strings.Join(l, " | ")
}

// huntCrash re-runs a dead worker announcing every run, finds the run after whose
// announcement the process died, and confirms it by replaying that single seed.
func huntCrash(self string, p Property, tier string, seed uint64, w int, budget float64, runs int) *Replay {
	a := []string{"worker", "-announce", "-prop", p.ID(), "-tier", tier, "-seed", strconv.FormatUint(seed, 10), "-w", strconv.Itoa(w), "-budget", fmt.Sprint(budget)}
	if runs > 0 {
		a = append(a, "-runs", strconv.Itoa(runs))
	}
	cmd := exec.Command(self, a...)
	var errb strings.Builder
	cmd.Stderr = &errb
	cmd.Stdout = nil
	if err := cmd.Run(); err == nil {
		return nil
	}
	lines := strings.Split(errb.String(), "\n")
	var last string
	tail := []string{}
	for _, l := range lines {
		if strings.HasPrefix(l, "RUN ") {
			last = l
			tail = tail[:0]
		} else {
			tail = append(tail, l)
		}
	}
	if last == "" {
		return nil
	}
	f := strings.Fields(last)
	rs, _ := strconv.ParseUint(f[2], 10, 64)
	msg := strings.Join(tail, "\n")
	if len(msg) > 6000 {
		msg = msg[:6000]
	}
	site := PanicSite(msg)
	return &Replay{Property: p.ID(), HarnessVersion: HarnessVersion, Tier: tier, Seed: rs, Kind: "fatal", Sig: "fatal:" + site, Msg: "process died (fatal runtime error):\n" + msg,
		Note: "fatal runtime errors cannot be recovered in-process; replay by seed (tapes are regenerated from the seed)"}
}

// CrossProcess is implemented by properties for which "the same input gives the same
// output" must also hold between processes (a stored encoding, a golden file): the same run
// seeds are executed in two further fresh processes and every observable is compared.
// This catches dependence on per-process state the simulator cannot own (a random hash seed,
// addresses, the clock).
type CrossProcess interface{ CrossProcessRuns() int }

func digestsOf(self string, p Property, tier string, seed uint64, n int, tz string) (map[uint64]uint64, error) {
	cmd := exec.Command(self, "worker", "-prop", p.ID(), "-tier", tier, "-seed", strconv.FormatUint(seed, 10), "-w", "0", "-runs", strconv.Itoa(n), "-digests")
	cmd.Env = append(os.Environ(), "GOMAXPROCS=2", "TZ="+tz)
	out, err := cmd.Output()
	if err != nil {
		return nil, err
	}
	res := map[uint64]uint64{}
	sc := bufio.NewScanner(strings.NewReader(string(out)))
	sc.Buffer(make([]byte, 1<<20), 1<<30)
	for sc.Scan() {
		var m workerMsg
		if json.Unmarshal(sc.Bytes(), &m) == nil && m.Type == "digest" {
			res[m.Run] = m.Digest
		}
	}
	return res, nil
}

func crossProcess(self string, p Property, tier string, seed uint64, n int) (*Replay, map[string]any, []string) {
	info := map[string]any{"runs_compared": n, "processes": 2, "what": "per-run digest of every observable, same run seeds in two fresh processes (TZ=UTC and TZ=Pacific/Kiritimati)"}
	// two fresh processes in different ambient time zones: what the library computes from its
	// inputs must not depend on either
	a, err1 := digestsOf(self, p, tier, seed, n, "UTC")
	b, err2 := digestsOf(self, p, tier, seed, n, "Pacific/Kiritimati")
	if err1 != nil || err2 != nil {
		return nil, info, []string{fmt.Sprintf("cross-process comparison: worker failed (%v, %v)", err1, err2)}
	}
	for i := 0; i < n; i++ {
		if a[uint64(i)] == b[uint64(i)] {
			continue
		}
		rs := RunSeed(seed, p.ID(), 0, i)
		// name the observable: dump both processes' observables for that run
		dump := func(tz string) []string {
			c := exec.Command(self, "obsdump", "-prop", p.ID(), "-tier", tier, "-runseed", strconv.FormatUint(rs, 10))
			c.Env = append(os.Environ(), "TZ="+tz)
			out, _ := c.Output()
			return strings.Split(strings.TrimSpace(string(out)), "\n")
		}
		d1, d2 := dump("UTC"), dump("Pacific/Kiritimati")
		what := "(not reproduced by the observable dump)"
		for k := 0; k < len(d1) && k < len(d2); k++ {
			if d1[k] != d2[k] {
				what = strings.SplitN(d1[k], "=", 2)[0]
				break
			}
		}
		info["differences"] = 1
		name := strings.TrimSpace(what)
		if j := strings.LastIndex(name, "["); j > 0 {
			name = name[:j]
		}
		return &Replay{Property: p.ID(), HarnessVersion: HarnessVersion, Tier: tier, Seed: rs, Kind: "cross-process", Sig: "cross-process:" + name,
			Msg: fmt.Sprintf("run seed %d (worker 0, run %d) produced different observables in two fresh processes; first differing observable: %s. The output depends on per-process state (random seed, addresses, time), so the same input does not always give the same bytes.", rs, i, what),
			T:   []uint32{}, S: []uint32{},
			Note: "replay: `verifrun obsdump -prop " + p.ID() + " -runseed <seed>` in two processes and compare"}, info, nil
	}
	info["differences"] = 0
	return nil, info, nil
}

// runRaceMode executes the free-running mode under the race detector (runtime monitoring,
// labelled as such in the evidence).  Exit status 66 = the detector reported a data race.
func runRaceMode(bin string, p Property, seed uint64, budget float64) (*Replay, map[string]any) {
	cmd := exec.Command(bin, "race-c19", "-seed", strconv.FormatUint(seed, 10), "-budget", fmt.Sprint(budget))
	cmd.Env = append(os.Environ(), "GORACE=halt_on_error=1 exitcode=66", "GOMAXPROCS="+strconv.Itoa(runtime.NumCPU()))
	out, err := cmd.CombinedOutput()
	info := map[string]any{
		"kind":     "runtime monitoring under the Go race detector (NOT deterministic simulation; interleavings are chosen by the Go scheduler)",
		"summary":  lastLines(string(out), 1),
		"budget_s": budget,
	}
	if err == nil {
		info["races_reported"] = 0
		return nil, info
	}
	code := -1
	if ee, ok := err.(*exec.ExitError); ok {
		code = ee.ExitCode()
	}
	text := string(out)
	if len(text) > 8000 {
		text = text[:8000]
	}
	if code == 66 || strings.Contains(text, "WARNING: DATA RACE") {
		info["races_reported"] = 1
		site := raceSite(text)
		return &Replay{Property: p.ID(), HarnessVersion: HarnessVersion, Tier: "race", Seed: seed, Kind: "data-race", Sig: "data-race:" + site,
			Msg: "the Go race detector reported a data race between read-only calls on shared inputs:\n" + text, T: []uint32{}, S: []uint32{},
			Note: fmt.Sprintf("race-detector mode: replay re-runs the free-running workload with this seed for %.0fs under -race; reproduction is likely but not certain", budget)}, info
	}
	info["races_reported"] = 0
	info["failure"] = fmt.Sprintf("exit %d: %s", code, lastLines(text, 6))
	return &Replay{Property: p.ID(), HarnessVersion: HarnessVersion, Tier: "race", Seed: seed, Kind: "fatal", Sig: "fatal-in-race-mode:" + PanicSite(text),
		Msg: "the free-running workload died:\n" + text, T: []uint32{}, S: []uint32{}, Note: "race-detector mode"}, info
}

// raceSite names the first cedar-go function in a race report.
func raceSite(report string) string {
	for _, l := range strings.Split(report, "\n") {
		l = strings.TrimSpace(l)
		if strings.HasPrefix(l, "github.com/cedar-policy/cedar-go") && !strings.Contains(l, "/verifharness") && !strings.Contains(l, "/internal/verifsim") {
			if i := strings.LastIndex(l, "("); i > 0 {
				l = l[:i]
			}
			return strings.TrimPrefix(l, "github.com/cedar-policy/cedar-go")
		}
	}
	return "unknown"
}

func writeEvidence(p Property, verif, tier string, seed uint64, st *Stats, wall float64, nviol int, knownSeen []string, instr string, workers int, firstSeeds, lastSeeds []uint64, extra map[string]any) {
	real, stub := p.Components()
	faults := map[string]uint64{}
	reach := map[string]uint64{}
	other := map[string]uint64{}
	for k, v := range st.Counters {
		switch {
		case strings.HasPrefix(k, "fault."):
			faults[strings.TrimPrefix(k, "fault.")] = v
		case strings.HasPrefix(k, "reach."):
			reach[strings.TrimPrefix(k, "reach.")] = v
		default:
			other[k] = v
		}
	}
	samples := make([]any, 0, len(st.Samples))
	for _, s := range st.Samples {
		var x any
		json.Unmarshal(s, &x)
		samples = append(samples, x)
	}
	if len(samples) == 0 {
		samples = append(samples, "no sample recorded")
	}
	exh := len(st.Exhaustive) > 0
	cov := map[string]any{
		"evaluations":         evaluations(st),
		"distinct_nontrivial": st.DistinctCount(),
		"rule":                p.Rule(),
		"samples":             samples,
		"simulated_runs":      st.Runs,
		"runs_per_hour":       int64(float64(st.Runs) / wall * 3600),
		"sim_steps":           st.SimSteps,
		"simulated_time":      fmt.Sprintf("%d logical steps (yield points passed; the library has no timers, the step counter is the only clock)", st.SimSteps),
		"fault_counts":        faults,
		"reach_probes":        reach,
		"other_counters":      other,
		"schedule_events": map[string]any{
			"map_iteration_events_ge2_keys": st.IterEvents,
			"non_canonical_orders":          st.IterPermuted,
			"preemptions":                   st.Preemptions,
			"distinct_schedule_hashes":      st.SchedCount(),
		},
		"seeds": map[string]any{
			"VERIF_SEED": seed, "workers": workers, "first_run_seed_per_worker": firstSeeds, "last_run_seed_per_worker": lastSeeds,
		},
		"instrumentation":      instr,
		"components_real":      real,
		"components_stub":      stub,
		"exhaustive_subspaces": st.Exhaustive,
		"exhaustive":           false,
		"known_findings_seen":  knownSeen,
		"shrink_executions":    st.ShrinkExecs,
		"raw_violating_runs":   st.Violations,
	}
	_ = exh
	for k, v := range extra {
		cov[k] = v
	}
	ev := map[string]any{
		"property_id": p.ID(),
		"tier":        tier,
		"seed":        seed,
		"level":       p.Level(),
		"coverage":    cov,
		"assumptions": p.Assumptions(),
		"wall_s":      wall,
		"violations":  nviol,
	}
	os.MkdirAll(filepath.Join(verif, "evidence"), 0o755)
	b, _ := json.MarshalIndent(ev, "", " ")
	os.WriteFile(filepath.Join(verif, "evidence", p.ID()+".json"), b, 0o644)
}

// evaluations = executions of the system under test: a property that performs several
// executions per run (one per reader schedule / fault plan) counts them as "executions".
func evaluations(st *Stats) uint64 {
	n := st.Runs
	if x := st.Counters["executions"]; x > n {
		n = x
	}
	return n + sumMap(st.Exhaustive)
}

func sumMap(m map[string]uint64) uint64 {
	var s uint64
	for _, v := range m {
		s += v
	}
	return s
}
