package core

import (
	_ "embed"
	"encoding/json"
	"fmt"
	"strings"
	"sync"
)

// sites.json is written by verif-instrument and copied next to this file by the check
// driver before the build (a placeholder keeps the package buildable on its own).
//
//go:embed sites.json
var sitesJSON []byte

type Site struct {
	ID   int    `json:"id"`
	Kind string `json:"kind"`
	Pkg  string `json:"pkg"`
	Func string `json:"func"`
	File string `json:"file"`
	Line int    `json:"line"`
	Expr string `json:"expr"`
}

var (
	sitesOnce sync.Once
	sites     []Site
)

func Sites() []Site {
	sitesOnce.Do(func() { json.Unmarshal(sitesJSON, &sites) })
	return sites
}

// SiteName names an instrumentation site by function and expression (not by line, so that
// signatures survive unrelated edits).
func SiteName(id int) string {
	s := Sites()
	if id < 0 || id >= len(s) {
		return fmt.Sprintf("site%d", id)
	}
	pkg := strings.TrimPrefix(s[id].Pkg, "github.com/cedar-policy/cedar-go")
	pkg = strings.TrimPrefix(pkg, "/")
	if pkg == "" {
		pkg = "cedar"
	}
	n := pkg + "." + s[id].Func
	if s[id].Expr != "" {
		n += ":" + s[id].Kind + " " + s[id].Expr
	}
	return n
}

// SiteLoc gives file:line of a site (for traces).
func SiteLoc(id int) string {
	s := Sites()
	if id < 0 || id >= len(s) {
		return "?"
	}
	return fmt.Sprintf("%s:%d", s[id].File, s[id].Line)
}
