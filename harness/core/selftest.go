package core

import (
	"bufio"
	"encoding/json"
	"flag"
	"fmt"
	"os"
	"os/exec"
	"sort"
	"strconv"
	"strings"
)

func init() {
	RegisterCommand("selftest-determinism", selftestDeterminism)
}

// selftestDeterminism: for every registered property, the same run seeds are executed in
// several fresh processes at GOMAXPROCS 1, 4 and 16 (twice each) and the per-run digests
// (tapes as consumed, every observable folded in by the harness, logical clock, schedule
// hash) are compared.  Any difference means a source of nondeterminism is not behind a
// seam: machinery trouble (exit 2).
func selftestDeterminism(args []string) int {
	fs := flag.NewFlagSet("selftest-determinism", flag.ExitOnError)
	runs := fs.Int("runs", 48, "run seeds per worker index")
	fs.String("verif", "", "")
	fs.String("scratch", "", "")
	only := fs.String("prop", "", "")
	fs.Parse(args)
	self, _ := os.Executable()
	ids := make([]string, 0, len(props))
	for id := range props {
		if *only == "" || *only == id {
			ids = append(ids, id)
		}
	}
	sort.Strings(ids)
	bad := 0
	for _, id := range ids {
		n := *runs
		if id == "C19" && n > 24 {
			n = 24
		}
		var ref map[string]uint64
		procs := 0
		badBefore := bad
		for _, w := range []int{0, 5} {
			ref = nil
			for pi, gmp := range []string{"1", "4", "16", "1", "4", "16"} {
				a := []string{"worker", "-prop", id, "-tier", "quick", "-seed", "12345", "-w", strconv.Itoa(w), "-runs", strconv.Itoa(n), "-digests"}
				if pi >= 3 {
					a = append(a, "-traced") // logging must not perturb a run
				}
				cmd := exec.Command(self, a...)
				cmd.Env = append(os.Environ(), "GOMAXPROCS="+gmp)
				out, err := cmd.Output()
				if err != nil {
					fmt.Printf("selftest-determinism %s: worker failed: %v\n", id, err)
					bad++
					continue
				}
				procs++
				got := map[string]uint64{}
				sc := bufio.NewScanner(strings.NewReader(string(out)))
				sc.Buffer(make([]byte, 1<<20), 1<<30)
				for sc.Scan() {
					var m workerMsg
					if json.Unmarshal(sc.Bytes(), &m) == nil && m.Type == "digest" {
						got[fmt.Sprintf("w%d/run%d", w, m.Run)] = m.Digest
					}
				}
				if len(got) != n {
					fmt.Printf("selftest-determinism %s: expected %d digests, got %d\n", id, n, len(got))
					bad++
				}
				if ref == nil {
					ref = got
					continue
				}
				for k, v := range got {
					if ref[k] != v {
						fmt.Printf("selftest-determinism %s: %s differs between processes (GOMAXPROCS=%s): %x vs %x\n", id, k, gmp, ref[k], v)
						bad++
					}
				}
			}
		}
		fmt.Printf("selftest-determinism %s: %d run seeds x 2 worker indices, %d processes at GOMAXPROCS 1/4/16 (once untraced, once with tracing on): %s\n", id, n, procs, map[bool]string{true: "identical digests", false: "DIFFERENCES"}[bad == badBefore])
	}
	if bad > 0 {
		fmt.Println("MACHINERY: nondeterminism detected")
		return 2
	}
	return 0
}
