// Package core is the run/shrink/report framework shared by all property harnesses.
// It is copied (with the rest of /verif/harness) into the instrumented scratch copy of
// cedar-go as github.com/cedar-policy/cedar-go/verifharness/core.
package core

import (
	"encoding/json"
	"fmt"
	"hash/fnv"
	"os"
	"runtime/debug"
	"sort"
	"strings"

	"github.com/cedar-policy/cedar-go/internal/verifsim"
)

const HarnessVersion = 1

// Violation describes one failed oracle.
type Violation struct {
	Kind string `json:"kind"` // violation class; shrinking keeps a candidate iff the class recurs
	Sig  string `json:"sig"`  // signature matched against known-findings.json
	Msg  string `json:"msg"`
}

func Violationf(kind, sig, format string, a ...any) *Violation {
	return &Violation{Kind: kind, Sig: sig, Msg: fmt.Sprintf(format, a...)}
}

// Run is the context of one simulated execution.
type Run struct {
	Sim     *verifsim.Sim
	T       *verifsim.Tape
	S       *verifsim.Tape
	Tier    string
	Prop    string
	Seed    uint64
	Trace   []string
	Tracing bool
	KeepObs bool // keep one line per observable (cross-process comparison)
	ObsLog  []string

	Counters map[string]uint64
	nontriv  []uint64
	sample   any
	obs      uint64
}

func (r *Run) Logf(format string, a ...any) {
	if !r.Tracing || len(r.Trace) > 4000 {
		return
	}
	// formatting may call String() methods of library types, which pass yield points:
	// render inside Quiet so that tracing never advances the logical clock
	r.Sim.Quiet(func() { r.Trace = append(r.Trace, fmt.Sprintf(format, a...)) })
}

// Quiet runs trace / sample rendering code without perturbing the simulation.
func (r *Run) Quiet(f func()) { r.Sim.Quiet(f) }

func (r *Run) Count(name string) { r.CountN(name, 1) }
func (r *Run) CountN(name string, n uint64) {
	if r.Counters == nil {
		r.Counters = map[string]uint64{}
	}
	r.Counters[name] += n
}

// Nontrivial marks this run as non-trivial by the property's rule; h identifies the
// (scenario, schedule/fault trace) for distinct counting.
func (r *Run) Nontrivial(h uint64) {
	if len(r.nontriv) < 4096 {
		r.nontriv = append(r.nontriv, h)
	}
}

// Sample offers a decoded description of this run for the evidence file.
func (r *Run) Sample(v any) { r.sample = v }

// Obs folds an observable into the run digest (used by the determinism self-test).
func (r *Run) Obs(parts ...any) {
	h := fnv.New64a()
	fmt.Fprint(h, parts...)
	r.obs = verifsim.Mix(r.obs, h.Sum64())
	if r.KeepObs && len(parts) > 0 {
		r.ObsLog = append(r.ObsLog, fmt.Sprintf("%v=%016x", parts[0], h.Sum64()))
	}
}

func (r *Run) ObsBytes(b []byte) {
	h := fnv.New64a()
	h.Write(b)
	r.obs = verifsim.Mix(r.obs, h.Sum64())
}

// Digest identifies everything that happened in the run.
func (r *Run) Digest() uint64 {
	h := fnv.New64a()
	for _, v := range r.T.Rec {
		fmt.Fprintf(h, "%d,", v)
	}
	h.Write([]byte("|"))
	for _, v := range r.S.Rec {
		fmt.Fprintf(h, "%d,", v)
	}
	if os.Getenv("VERIF_DEBUG_DIGEST") != "" {
		fmt.Fprintf(os.Stderr, "digest parts: tapes=%x obs=%x steps=%d sched=%x lenT=%d lenS=%d\n", h.Sum64(), r.obs, r.Sim.Steps, r.Sim.SchedHash, len(r.T.Rec), len(r.S.Rec))
	}
	return verifsim.Mix(h.Sum64(), r.obs, r.Sim.Steps, r.Sim.SchedHash)
}

// Property is one claimed property's harness.
type Property interface {
	ID() string
	Level() string // evidence level: exploration | fault_enumeration
	Rule() string  // how cases are generated and what makes one non-trivial / distinct
	// Run executes one simulated run.  It must be a pure function of the run's tapes
	// and tier.  A panic escaping Run is turned into a violation of kind "panic".
	Run(r *Run) *Violation
	// QuickRuns is the number of runs per worker in the quick tier.
	QuickRuns() int
	Assumptions() []string
	Components() (real, stub []string)
	// Refine may improve the signature of a minimised violation (e.g. name the
	// culprit iteration site).  exec re-executes candidate tapes.
	Refine(v *Violation, t, s []uint32, exec func(t, s []uint32) (*Violation, *Run)) *Violation
}

// Extra is optionally implemented by properties with enumerated sub-spaces that run once
// per check (on worker 0) in addition to the seeded runs.
type Extra interface {
	Exhaustive(tier string, report func(name string, cases uint64), fail func(*Violation, string))
}

// Machinery is the panic value for harness trouble (exit 2).
type Machinery struct{ Msg string }

func (m Machinery) Error() string { return "machinery: " + m.Msg }

// Exec performs one run from explicit tapes (replay) or from a seed (record).
func Exec(p Property, tier string, seed uint64, tRep, sRep []uint32, replay, tracing bool) (v *Violation, r *Run) {
	var t, s *verifsim.Tape
	if replay {
		t, s = verifsim.ReplayTape(tRep), verifsim.ReplayTape(sRep)
	} else {
		t = verifsim.NewTape(verifsim.Mix(seed, 1))
		s = verifsim.NewTape(verifsim.Mix(seed, 2))
	}
	r = &Run{T: t, S: s, Tier: tier, Prop: p.ID(), Seed: seed, Tracing: tracing}
	r.Sim = verifsim.NewSim(t, s)
	defer func() {
		r.Sim.Deactivate()
		if x := recover(); x != nil {
			switch e := x.(type) {
			case verifsim.Unsupported:
				panic(e)
			case Machinery:
				panic(e)
			case verifsim.StepBudget:
				v = &Violation{Kind: "hang", Sig: "hang", Msg: e.Error()}
			case verifsim.ReaderSpin:
				v = &Violation{Kind: "hang", Sig: "hang:reader-spin", Msg: e.Error()}
			default:
				st := string(debug.Stack())
				v = &Violation{Kind: "panic", Sig: "panic:" + PanicSite(st), Msg: fmt.Sprintf("panic: %v\n%s", x, st)}
			}
			r.Logf("PANIC/ABORT: %s", v.Msg)
		}
	}()
	v = p.Run(r)
	return v, r
}

// PanicSite extracts the innermost cedar-go (non-harness, non-runtime) function from a
// stack trace, for signatures.
func PanicSite(stack string) string {
	lines := strings.Split(stack, "\n")
	for _, l := range lines {
		if strings.HasPrefix(l, "github.com/cedar-policy/cedar-go") && !strings.Contains(l, "/verifharness") && !strings.Contains(l, "/internal/verifsim") {
			if i := strings.LastIndex(l, "("); i > 0 {
				l = l[:i]
			}
			return strings.TrimPrefix(l, "github.com/cedar-policy/cedar-go")
		}
	}
	return "unknown"
}

// ---------------------------------------------------------------------------------
// Stats aggregated over the primary runs of a worker (and merged by the parent).

type Stats struct {
	Runs         uint64            `json:"runs"`
	SimSteps     uint64            `json:"sim_steps"`
	IterEvents   uint64            `json:"iter_events"`
	IterPermuted uint64            `json:"iter_permuted"`
	Preemptions  uint64            `json:"preemptions"`
	Counters     map[string]uint64 `json:"counters"`
	Distinct     []uint64          `json:"distinct,omitempty"`
	SchedHashes  []uint64          `json:"sched_hashes,omitempty"`
	Samples      []json.RawMessage `json:"samples,omitempty"`
	FirstSeed    uint64            `json:"first_seed"`
	LastSeed     uint64            `json:"last_seed"`
	Exhaustive   map[string]uint64 `json:"exhaustive,omitempty"`
	ShrinkExecs  uint64            `json:"shrink_execs"`
	Violations   uint64            `json:"violations_raw"`

	distinct map[uint64]struct{}
	sched    map[uint64]struct{}
}

const maxHashSet = 2_000_000

func NewStats() *Stats {
	return &Stats{Counters: map[string]uint64{}, distinct: map[uint64]struct{}{}, sched: map[uint64]struct{}{}, Exhaustive: map[string]uint64{}}
}

func (st *Stats) Absorb(r *Run) {
	st.Runs++
	if r.Sim.ForeignSeen() {
		st.Counters["info.runs_in_which_the_library_spawned_goroutines_(not_exactly_replayable)"]++
	}
	st.SimSteps += r.Sim.Steps
	st.IterEvents += r.Sim.IterEvents
	st.IterPermuted += r.Sim.IterPermuted
	st.Preemptions += r.Sim.Preemptions
	for k, v := range r.Counters {
		st.Counters[k] += v
	}
	for _, h := range r.nontriv {
		if len(st.distinct) < maxHashSet {
			st.distinct[h] = struct{}{}
		}
	}
	if r.Sim.IterPermuted > 0 || r.Sim.Preemptions > 0 {
		if len(st.sched) < maxHashSet {
			st.sched[verifsim.Mix(r.Sim.SchedHash, r.Sim.Preemptions)] = struct{}{}
		}
	}
	if r.sample != nil && len(st.Samples) < 6 {
		if b, err := json.Marshal(r.sample); err == nil {
			st.Samples = append(st.Samples, b)
		}
	}
}

func (st *Stats) Seal() {
	st.Distinct = st.Distinct[:0]
	for h := range st.distinct {
		st.Distinct = append(st.Distinct, h)
	}
	sort.Slice(st.Distinct, func(i, j int) bool { return st.Distinct[i] < st.Distinct[j] })
	st.SchedHashes = st.SchedHashes[:0]
	for h := range st.sched {
		st.SchedHashes = append(st.SchedHashes, h)
	}
	sort.Slice(st.SchedHashes, func(i, j int) bool { return st.SchedHashes[i] < st.SchedHashes[j] })
}

func (st *Stats) Merge(o *Stats) {
	st.Runs += o.Runs
	st.SimSteps += o.SimSteps
	st.IterEvents += o.IterEvents
	st.IterPermuted += o.IterPermuted
	st.Preemptions += o.Preemptions
	st.ShrinkExecs += o.ShrinkExecs
	st.Violations += o.Violations
	for k, v := range o.Counters {
		st.Counters[k] += v
	}
	for k, v := range o.Exhaustive {
		st.Exhaustive[k] += v
	}
	for _, h := range o.Distinct {
		st.distinct[h] = struct{}{}
	}
	for _, h := range o.SchedHashes {
		st.sched[h] = struct{}{}
	}
	for _, s := range o.Samples {
		if len(st.Samples) < 8 {
			st.Samples = append(st.Samples, s)
		}
	}
}

func (st *Stats) DistinctCount() int { return len(st.distinct) }
func (st *Stats) SchedCount() int    { return len(st.sched) }
