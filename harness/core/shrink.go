package core

import "time"

// Minimise shrinks the pair of tapes (scenario tape t, schedule tape s) while the same
// violation class recurs.  Generators treat 0 as the simplest alternative and use
// "more?" flags, so deleting / zeroing / lowering tape entries shrinks the operation
// sequence, the fault sequence and the schedule at the same time.
func Minimise(p Property, tier string, v *Violation, t, s []uint32, maxExecs int, budget time.Duration) (*Violation, []uint32, []uint32, int) {
	execs := 0
	deadline := time.Now().Add(budget) // bounds effort only; the result is verified by replay
	kind := v.Kind
	cur := v
	try := func(ct, cs []uint32) bool {
		if execs >= maxExecs || time.Now().After(deadline) {
			return false
		}
		execs++
		nv, r := Exec(p, tier, 0, ct, cs, true, false)
		if nv == nil || nv.Kind != kind {
			return false
		}
		// adopt the normalised recording
		t, s = r.T.Snapshot(), r.S.Snapshot()
		cur = nv
		return true
	}
	// normalise first
	try(t, s)
	get := func(which int) []uint32 {
		if which == 0 {
			return t
		}
		return s
	}
	attempt := func(which int, c []uint32) bool {
		if which == 0 {
			if equalTape(c, t) {
				return false
			}
			return try(c, s)
		}
		if equalTape(c, s) {
			return false
		}
		return try(t, c)
	}
	// zeroPass: ddmin-style, blocks from half the tape down to single entries
	zeroPass := func(which int) bool {
		progress := false
		for bs := (len(get(which)) + 1) / 2; bs >= 1; bs /= 2 {
			for i := 0; i < len(get(which)); i += bs {
				c := get(which)
				j := i + bs
				if j > len(c) {
					j = len(c)
				}
				nz := false
				for _, x := range c[i:j] {
					if x != 0 {
						nz = true
						break
					}
				}
				if !nz {
					continue
				}
				cand := append([]uint32(nil), c...)
				for k := i; k < j; k++ {
					cand[k] = 0
				}
				if attempt(which, cand) {
					progress = true
				}
			}
		}
		return progress
	}
	deletePass := func(which int) bool {
		progress := false
		for bs := (len(get(which)) + 1) / 2; bs >= 1; bs /= 2 {
			for i := len(get(which)) - bs; i >= 0; i -= bs {
				c := get(which)
				if i+bs > len(c) {
					continue
				}
				cand := append(append([]uint32(nil), c[:i]...), c[i+bs:]...)
				if attempt(which, cand) {
					progress = true
				}
			}
		}
		return progress
	}
	lowerPass := func(which int) bool {
		progress := false
		for i := 0; i < len(get(which)); i++ {
			c := get(which)
			if c[i] == 0 {
				continue
			}
			for _, nv := range []uint32{c[i] / 2, c[i] - 1} {
				c = get(which)
				if i >= len(c) || nv >= c[i] {
					continue
				}
				cand := append([]uint32(nil), c...)
				cand[i] = nv
				if attempt(which, cand) {
					progress = true
				}
			}
		}
		return progress
	}
	for round := 0; round < 5; round++ {
		progress := false
		// the schedule first: an all-canonical schedule if possible, else as few
		// non-canonical events as possible
		if len(s) > 0 && try(t, nil) {
			progress = true
		}
		if zeroPass(1) {
			progress = true
		}
		if deletePass(0) {
			progress = true
		}
		if zeroPass(0) {
			progress = true
		}
		if lowerPass(0) {
			progress = true
		}
		if zeroPass(1) {
			progress = true
		}
		if lowerPass(1) {
			progress = true
		}
		if !progress || execs >= maxExecs || time.Now().After(deadline) {
			break
		}
	}
	return cur, t, s, execs
}

func equalTape(a, b []uint32) bool {
	if len(a) != len(b) {
		return false
	}
	for i := range a {
		if a[i] != b[i] {
			return false
		}
	}
	return true
}
