package core

import "time"

// Minimise shrinks the pair of tapes (scenario tape t, schedule tape s) while the same
// violation class recurs.  Generators treat 0 as the simplest alternative and use
// "more?" flags, so deleting / zeroing / lowering tape entries shrinks the operation
// sequence, the fault sequence and the schedule at the same time.
func Minimise(p Property, tier string, v *Violation, t, s []uint32, maxExecs int, budget time.Duration) (*Violation, []uint32, []uint32, int) {
	execs := 0
	deadline := time.Now().Add(budget) // bounds effort only; the result is verified by replay
	kind := v.Kind
	cur := v
	try := func(ct, cs []uint32) bool {
		if execs >= maxExecs || time.Now().After(deadline) {
			return false
		}
		execs++
		nv, r := Exec(p, tier, 0, ct, cs, true, false)
		if nv == nil || nv.Kind != kind {
			return false
		}
		// adopt the normalised recording
		t, s = r.T.Snapshot(), r.S.Snapshot()
		cur = nv
		return true
	}
	// normalise first
	try(t, s)
	for round := 0; round < 6; round++ {
		progress := false
		// schedule tape first: all-canonical schedule if possible
		if len(s) > 0 && try(t, nil) {
			progress = true
		}
		for _, which := range []int{0, 1} {
			get := func() []uint32 {
				if which == 0 {
					return t
				}
				return s
			}
			attempt := func(c []uint32) bool {
				if which == 0 {
					return try(c, s)
				}
				return try(t, c)
			}
			// truncate tail
			for n := len(get()) / 2; n >= 1; n /= 2 {
				for len(get()) >= n {
					c := get()
					if !attempt(append([]uint32(nil), c[:len(c)-n]...)) {
						break
					}
					progress = true
				}
			}
			// delete blocks
			for _, bs := range []int{16, 8, 4, 2, 1} {
				for i := len(get()) - bs; i >= 0; i-- {
					c := get()
					if i+bs > len(c) {
						continue
					}
					cand := append(append([]uint32(nil), c[:i]...), c[i+bs:]...)
					if attempt(cand) {
						progress = true
					}
				}
			}
			// zero blocks
			for _, bs := range []int{8, 2, 1} {
				for i := 0; i+bs <= len(get()); i++ {
					c := get()
					nz := false
					for _, x := range c[i : i+bs] {
						if x != 0 {
							nz = true
						}
					}
					if !nz {
						continue
					}
					cand := append([]uint32(nil), c...)
					for j := i; j < i+bs; j++ {
						cand[j] = 0
					}
					if attempt(cand) {
						progress = true
					}
				}
			}
			// lower values
			for i := 0; i < len(get()); i++ {
				c := get()
				if c[i] == 0 {
					continue
				}
				for _, nv := range []uint32{c[i] / 2, c[i] - 1} {
					c = get()
					if i >= len(c) || nv >= c[i] {
						continue
					}
					cand := append([]uint32(nil), c...)
					cand[i] = nv
					if attempt(cand) {
						progress = true
					}
				}
			}
		}
		if !progress || execs >= maxExecs || time.Now().After(deadline) {
			break
		}
	}
	return cur, t, s, execs
}
