// Package fixtures gives the harnesses access to the repository's own schema / policy /
// entity triples (x/exp/schema/validate/testdata in the scratch copy), with a small
// built-in set as a fallback.
package fixtures

import (
	"os"
	"path/filepath"
	"sort"
	"strings"
	"sync"

	"github.com/cedar-policy/cedar-go/internal/verifsim"
)

type Schema struct {
	Name     string
	Cedar    []byte // .cedarschema
	Policies []byte // .cedar (may be nil)
	Entities []byte // .entities.json (may be nil)
}

var (
	once sync.Once
	all  []*Schema
)

var builtin = []*Schema{
	{Name: "builtin-1", Cedar: []byte(`entity User in [Group] { name: String, age?: Long };
entity Group;
entity Doc { owner: User, tags: Set<String> };
action view, edit appliesTo { principal: [User], resource: [Doc], context: { ip: ipaddr, flag?: Bool } };
`), Policies: []byte(`permit (principal is User, action == Action::"view", resource is Doc) when { resource.owner == principal };`)},
	// declarations deliberately out of lexicographic order: parent lists, action parents,
	// principal/resource lists, attributes, enum members, namespaces
	{Name: "builtin-3-unsorted", Cedar: []byte(`namespace Zeta {
  type Ctx = { zone: String, ip: ipaddr, flags: Set<String>, "na me"?: Long };
  entity Team in [Org];
  entity Org;
  entity Admins;
  entity User in [Team, Org, Admins] { name: String, manager?: User, age: Long } tags String;
  entity Doc in [Team, Admins] { owner: User, labels: Set<String> };
  entity Color enum ["red", "blue", "green"];
  action "write" appliesTo { principal: [User, Team], resource: [Doc, Org], context: Ctx };
  action "admin" appliesTo { principal: User, resource: Doc, context: {} };
  action "read" in ["write", "admin"] appliesTo { principal: [User, Admins, Team], resource: [Org, Doc], context: Ctx };
}
namespace Alpha {
  entity Thing in [Zeta::Team, Zeta::Org, Zeta::Admins] { z: Long, a: String, m: Bool };
  action "use" appliesTo { principal: [Zeta::User], resource: [Thing], context: { b: Long, a: Long } };
}
entity Root in [Zeta::Org, Alpha::Thing];
`), Entities: []byte(`[{"uid":{"type":"Zeta::User","id":"u"},"parents":[{"type":"Zeta::Team","id":"t"},{"type":"Zeta::Org","id":"o"},{"type":"Zeta::Admins","id":"a"}],"attrs":{"name":"n","age":3},"tags":{"k":"v","a":"b"}},{"uid":{"type":"Zeta::Team","id":"t"},"parents":[{"type":"Zeta::Org","id":"o"}],"attrs":{},"tags":{}},{"uid":{"type":"Zeta::Org","id":"o"},"parents":[],"attrs":{},"tags":{}},{"uid":{"type":"Zeta::Admins","id":"a"},"parents":[],"attrs":{},"tags":{}}]`)},
	{Name: "builtin-4-nested", Cedar: []byte(`type Zed = { y: Long, x: Set<Set<Long>>, w: { b: Bool, a: decimal } };
type Alias = Zed;
namespace Org::Unit {
  type Inner = { q: Alias, p: Set<Alias>, o?: datetime };
  entity Z, M, A;
  entity Holder in [Z, M, A] { z: Inner, a: Set<Holder>, m?: duration } tags Set<String>;
  entity Kind enum ["b", "a", "c"];
  action z, m, a;
  action top in [z, m, a];
  action leaf in [top, z] appliesTo { principal: [Z, Holder, A], resource: [M, Holder], context: { zz: Inner, aa: Long } };
}
namespace Org {
  entity Y in [Org::Unit::Z, Org::Unit::A];
  action "na me" appliesTo { principal: Y, resource: Y, context: {} };
}
`)},
	{Name: "builtin-2", Cedar: []byte(`namespace NS { type T = { a: Long, b: String }; entity E { t: T }; action a appliesTo { principal: E, resource: E }; }
entity Z enum ["x", "y"];
`)},
}

func dir() string {
	if d := os.Getenv("VERIF_FIXTURES"); d != "" {
		return d
	}
	exe, err := os.Executable()
	if err != nil {
		return ""
	}
	return filepath.Join(filepath.Dir(exe), "repo", "x", "exp", "schema", "validate", "testdata")
}

func load() {
	d := dir()
	names, _ := filepath.Glob(filepath.Join(d, "*.cedarschema"))
	sort.Strings(names)
	for _, n := range names {
		b, err := os.ReadFile(n)
		if err != nil {
			continue
		}
		base := strings.TrimSuffix(n, ".cedarschema")
		s := &Schema{Name: filepath.Base(base), Cedar: b}
		s.Policies, _ = os.ReadFile(base + ".cedar")
		s.Entities, _ = os.ReadFile(base + ".entities.json")
		all = append(all, s)
	}
	all = append(all, builtin...)
}

// All returns every fixture (repository fixtures first, sorted by name).
func All() []*Schema {
	once.Do(load)
	return all
}

// Pick chooses a fixture by tape.
func Pick(t *verifsim.Tape) *Schema {
	a := All()
	if len(a) == 0 {
		return nil
	}
	if t.Intn(6) == 5 {
		return builtin[t.Intn(len(builtin))]
	}
	return a[t.Intn(len(a))]
}
