// Package c05: batch authorization equals brute-force authorization of every
// substitution; enumeration stops on callback failure or cancellation.  DESIGN.md §4 (C05).
package c05

import (
	"context"
	"errors"
	"fmt"
	"hash/fnv"
	"iter"
	"maps"
	"sort"
	"strings"

	cedar "github.com/cedar-policy/cedar-go"
	"github.com/cedar-policy/cedar-go/internal/verifsim"
	"github.com/cedar-policy/cedar-go/types"
	"github.com/cedar-policy/cedar-go/verifharness/core"
	"github.com/cedar-policy/cedar-go/verifharness/gen"
	"github.com/cedar-policy/cedar-go/x/exp/batch"
)

type Prop struct{}

func (Prop) ID() string     { return "C05" }
func (Prop) Level() string  { return "fault_enumeration" }
func (Prop) QuickRuns() int { return 7000 }
func (Prop) Rule() string {
	return "each run = one generated scenario (1-6 policies biased to context attribute access, whole-composite comparison, in/has and errors; entity store or nil; request template with variables in principal/action/resource and nested in context records and sets, the same variable used several times, several variables, value lists of length 0-3, product <= 64; PolicySet or custom iterator; tape-chosen map iteration orders). Every scenario is executed fault-free against the harness' own Cartesian enumeration + substitution + cedar.Authorize, then with the callback failing at EVERY k in 1..N, the callback cancelling the context at EVERY k, the context cancelled before the call, and the context cancelled at sampled logical-clock instants (incl. the instant each callback starts). Non-trivial iff the product has >= 2 elements and at least one variable is nested in the context; distinct = distinct hash of the scenario tape."
}
func (Prop) Assumptions() []string {
	return []string{
		"reference = cedar.Authorize on the harness' own substitution of the template (the property's own definition)",
		"errors in Diagnostic are not compared (the property promises decision and reason set only)",
		"after a cancellation at logical instant T at most one further callback may start (the evaluation in flight); the call must return within 3x the largest fault-free inter-callback gap + 2000 steps",
		"when the callback cancels at the last element (all work delivered), nil is accepted as well as the context error",
		"unused / unbound variables, Ignore() and non-entity principal/action/resource values are outside the property and not generated",
	}
}
func (Prop) Components() (real, stub []string) {
	return []string{"x/exp/batch.Authorize (doBatch, doPartial, cloneSub, batchCompile, isAuthorized)", "internal/eval (partial evaluation, compile, evaluators)", "cedar.Authorize, PolicySet (reference side)"},
		[]string{"context.Context (SimContext on the logical clock)", "batch.Callback (records, fails or cancels at k)", "cedar.PolicyIterator (custom order)", "types.EntityGetter (EntityMap or nil)", "map iteration order (verifsim.RangeMap)"}
}
func (Prop) Refine(v *core.Violation, t, s []uint32, exec func(t, s []uint32) (*core.Violation, *core.Run)) *core.Violation {
	return v
}

// ---------------------------------------------------------------------------------
// scenario

type scenario struct {
	ids         []cedar.PolicyID
	texts       []string
	pols        []*cedar.Policy
	ents        types.EntityGetter
	entsStr     string
	req         batch.Request
	names       []types.String // variable names, sorted
	nested      bool           // some variable is nested in the context
	customIter  bool
	reparse     int // index of a policy re-parsed in place after it was added (-1: none)
	reparseText string
}

var special = []string{
	`permit (principal, action, resource) when { context == {a: User::"a"} };`,
	`permit (principal, action, resource) when { context.a == User::"a" };`,
	`permit (principal, action, resource) when { context.a && true };`,
	`permit (principal, action, resource) when { context.a || false };`,
	`permit (principal, action, resource) when { if context.a then true else false };`,
	`permit (principal, action, resource) when { context.b.a == 1 };`,
	`permit (principal, action, resource) when { context.b == {a: 1} };`,
	`permit (principal, action, resource) when { context.a.contains(1) };`,
	`permit (principal, action, resource) when { [context.a, context.b].contains(User::"a") };`,
	`forbid (principal, action, resource) when { context has a && context.a == principal };`,
	`permit (principal in Group::"a", action, resource) unless { context.name like "a*" };`,
	`permit (principal, action, resource) when { principal in context.a };`,
	`permit (principal, action, resource) when { context.a in Group::"a" };`,
	`permit (principal, action, resource) when { {x: context.a}.x == User::"a" };`,
	`permit (principal, action, resource) when { context.a.isEmpty() || context.a.containsAny([1, User::"a"]) };`,
	`forbid (principal, action, resource) when { 1 + context.a > 1 };`,
	`permit (principal == User::"a", action == Action::"a", resource) when { context != {} };`,
	`permit (principal, action, resource) when { principal has a && principal.a == context.a };`,
	`permit (principal, action, resource) unless { principal is Group in context.missing };`,
	`permit (principal, action, resource) unless { action is User in context.a };`,
	`permit (principal, action, resource) when { !(resource is Doc in principal.missing) };`,
	`forbid (principal, action, resource) when { context.a is User in context.b };`,
	`permit (principal, action, resource) when { (context has b && context.b) || principal == User::"a" };`,
	`permit (principal, action, resource) when { (if context has a then context.a else context).a == 1 };`,
	`permit (principal, action, resource) when { context.a == [User::"a"] };`,
	`forbid (principal, action, resource) when { context.a != [1] };`,
	`permit (principal, action, resource) when { context.a == 1 };`,
	`permit (principal, action, resource) when { context.a == "1" || context.b == true };`,
	`permit (principal, action, resource) when { context.b.a == [principal, User::"a"] };`,
	`permit (principal, action, resource) when { [context.a, 1] == [1] };`,
	`permit (principal, action, resource) when { ip(context.a).isLoopback() };`,
	`permit (principal, action, resource) when { if context.a then true else true };`,
	`permit (principal, action, resource) when { (if context.b.a == 1 then "x" else "x") == "x" };`,
	`forbid (principal, action, resource) unless { if principal in context.a then 1 == 1 else 2 == 2 };`,
	`permit (principal, action, resource) when { (context.a || true) && (context.b && false) == false };`,
	`permit (principal, action, resource) when { context has a && context has b && context.a == context.b };`,
	`forbid (principal, action, resource) when { context.b has a && context.b.a like "a*" };`,
	`permit (principal, action, resource) when { (if context.a then 1 else "x") + 1 == 2 };`,
	`permit (principal, action, resource) when { principal.a == context.a || resource in context.b };`,
	`permit (principal is User, action, resource) unless { context.a.contains(principal) };`,
	`forbid (principal, action, resource in Group::"a") when { context.name == principal.name };`,
	`permit (principal, action, resource) when { decimal(context.a).lessThan(decimal("2.0")) || context.b == "1" };`,
}

func varsIn(v types.Value, names map[types.String]bool, out map[types.String]bool) {
	switch t := v.(type) {
	case types.EntityUID:
		for n := range names {
			if v == batch.Variable(n) {
				out[n] = true
			}
		}
	case types.Record:
		for x := range t.Values() {
			varsIn(x, names, out)
		}
	case types.Set:
		for x := range t.All() {
			varsIn(x, names, out)
		}
	}
}

func genScenario(r *core.Run) *scenario {
	g := gen.New(r.T)
	g.Swarm()
	sc := &scenario{}
	n := 1 + r.T.Intn(6)
	for i := 0; i < n; i++ {
		var txt string
		if r.T.Intn(2) == 1 {
			txt = special[r.T.Intn(len(special))]
		} else {
			txt = g.PolicyText()
		}
		pp, how, err := gen.ParsePolicy(r.T, txt)
		if err != nil {
			r.Count("gen.policy_parse_failure")
			continue
		}
		sc.ids = append(sc.ids, cedar.PolicyID(fmt.Sprintf("p%d", i)))
		sc.texts = append(sc.texts, txt+"   // built via "+how)
		sc.pols = append(sc.pols, pp)
	}
	switch x := r.T.Intn(8); {
	case x == 7:
		sc.ents = nil
		sc.entsStr = "nil"
	case x >= 5:
		// a store that is not an EntityMap (the identity of the EntityGetter must not matter)
		em := g.Entities()
		sc.ents = &funcGetter{m: em}
		b, _ := em.MarshalJSON()
		sc.entsStr = "custom EntityGetter over " + string(b)
	default:
		em := g.Entities()
		sc.ents = em
		b, _ := em.MarshalJSON()
		sc.entsStr = string(b)
	}
	sc.customIter = r.T.Intn(3) == 2
	sc.reparse = -1
	if len(sc.ids) > 0 && r.T.Intn(6) == 5 {
		sc.reparse = r.T.Intn(len(sc.ids))
		sc.reparseText = special[r.T.Intn(len(special))]
		sc.texts[sc.reparse] += "   // re-parsed in place after Add as: " + sc.reparseText
	}
	base := g.Request()
	pool := map[types.String]bool{"p": true, "a": true, "r": true, "c": true, "d": true}
	uidList := func(k int, actions bool) []types.Value {
		var out []types.Value
		for i := 0; i < k; i++ {
			if actions && r.T.Intn(4) != 3 {
				out = append(out, types.NewEntityUID("Action", types.String(gen.IDs[r.T.Intn(len(gen.IDs))])))
			} else {
				out = append(out, g.UID())
			}
		}
		return out
	}
	listLen := func() int {
		// 0 is rare but must occur; 1-3 otherwise
		x := r.T.Intn(10)
		switch {
		case x == 9:
			return 0
		case x < 3:
			return 1
		case x < 7:
			return 2
		default:
			return 3
		}
	}
	req := batch.Request{Principal: base.Principal, Action: base.Action, Resource: base.Resource, Variables: batch.Variables{}}
	if r.T.Intn(3) == 1 {
		req.Principal = batch.Variable("p")
	}
	if r.T.Intn(4) == 1 {
		req.Action = batch.Variable("a")
	}
	if r.T.Intn(3) == 1 {
		req.Resource = batch.Variable("r")
	}
	// context: record whose leaves may be variables, nested in records and sets
	var leaf func(depth int) types.Value
	leaf = func(depth int) types.Value {
		switch r.T.Intn(8) {
		case 0, 1:
			return g.Value(1)
		case 2, 3:
			return batch.Variable(types.String([]string{"c", "d", "p", "c", ""}[r.T.Intn(5)]))
		case 4:
			if depth <= 0 {
				return g.Value(0)
			}
			k := 1 + r.T.Intn(3)
			var vs []types.Value
			for i := 0; i < k; i++ {
				vs = append(vs, leaf(depth-1))
			}
			return types.NewSet(vs...)
		case 5:
			if depth <= 0 {
				return g.Value(0)
			}
			m := types.RecordMap{}
			k := 1 + r.T.Intn(3)
			for i := 0; i < k; i++ {
				m[types.String(gen.Attrs[r.T.Intn(len(gen.Attrs))])] = leaf(depth - 1)
			}
			return types.NewRecord(m)
		case 6:
			return g.UID()
		default:
			return types.Boolean(r.T.Bool())
		}
	}
	cm := types.RecordMap{}
	k := r.T.Intn(5)
	for i := 0; i < k; i++ {
		cm[types.String(gen.Attrs[r.T.Intn(len(gen.Attrs))])] = leaf(2)
	}
	req.Context = types.NewRecord(cm)
	wholeCtx := r.T.Intn(10) == 9
	if wholeCtx {
		// the whole context is one variable whose values are records
		req.Context = batch.Variable("x")
	}
	pool["x"] = true
	pool[""] = true // the empty name is a legal variable name
	found := map[types.String]bool{}
	varsIn(req.Principal, pool, found)
	varsIn(req.Action, pool, found)
	varsIn(req.Resource, pool, found)
	inCtx := map[types.String]bool{}
	varsIn(req.Context, pool, inCtx)
	for n := range inCtx {
		found[n] = true
	}
	sc.nested = len(inCtx) > 0
	for n := range found {
		sc.names = append(sc.names, n)
	}
	sort.Slice(sc.names, func(i, j int) bool { return sc.names[i] < sc.names[j] })
	size := 1
	for _, n := range sc.names {
		l := listLen()
		var vals []types.Value
		switch n {
		case "x":
			for i := 0; i < l; i++ {
				vals = append(vals, g.Record(1))
			}
		case "p", "r":
			vals = uidList(l, false)
		case "a":
			vals = uidList(l, true)
		default:
			for i := 0; i < l; i++ {
				vals = append(vals, g.Value(1))
			}
			if l >= 2 && r.T.Intn(4) == 3 {
				// values of different types that print alike
				pairs := [][2]types.Value{{types.Long(1), types.String("1")}, {types.True, types.String("true")}, {types.NewEntityUID("User", "a"), types.String(`User::"a"`)}, {types.Long(0), types.String("0")}}
				pr := pairs[r.T.Intn(len(pairs))]
				if r.T.Bool() {
					pr[0], pr[1] = pr[1], pr[0]
				}
				vals[0], vals[1] = pr[0], pr[1]
			}
		}
		if l > 0 && size*l > 64 {
			vals = vals[:1]
			l = 1
		}
		if l > 0 {
			size *= l
		}
		if vals == nil {
			vals = []types.Value{}
		}
		req.Variables[n] = vals
	}
	sc.req = req
	return sc
}

// funcGetter is an EntityGetter that is not an EntityMap.
type funcGetter struct {
	m     types.EntityMap
	calls int
}

func (f *funcGetter) Get(uid types.EntityUID) (types.Entity, bool) {
	f.calls++
	e, ok := f.m[uid]
	return e, ok
}

type orderedPolicies struct {
	ids  []cedar.PolicyID
	pols []*cedar.Policy
}

func (o orderedPolicies) All() iter.Seq2[cedar.PolicyID, *cedar.Policy] {
	return func(yield func(cedar.PolicyID, *cedar.Policy) bool) {
		for i := range o.ids {
			if !yield(o.ids[i], o.pols[i]) {
				return
			}
		}
	}
}

func (sc *scenario) policies(r *core.Run) cedar.PolicyIterator {
	if sc.customIter {
		o := orderedPolicies{}
		idx := make([]int, len(sc.ids))
		for i := range idx {
			idx[i] = i
		}
		for i := 0; i < len(idx)-1; i++ {
			j := i + r.S.Intn(len(idx)-i)
			idx[i], idx[j] = idx[j], idx[i]
		}
		for _, i := range idx {
			o.ids = append(o.ids, sc.ids[i])
			o.pols = append(o.pols, sc.pols[i])
		}
		return o
	}
	ps := cedar.NewPolicySet()
	for i, id := range sc.ids {
		ps.Add(id, sc.pols[i])
	}
	// a policy object that is already in the set may be re-parsed in place by its owner
	// (Policy.UnmarshalCedar / UnmarshalJSON overwrite the receiver): both authorizers must
	// see the new policy
	if sc.reparse >= 0 && sc.reparse < len(sc.ids) {
		if p := ps.Get(sc.ids[sc.reparse]); p != nil {
			_ = p.UnmarshalCedar([]byte(sc.reparseText))
		}
	}
	return ps
}

// ---------------------------------------------------------------------------------
// reference model: own enumeration and substitution

type assignment map[types.String]types.Value

func (a assignment) key(names []types.String) string {
	var sb strings.Builder
	for _, n := range names {
		fmt.Fprintf(&sb, "%s=%s;", n, gen.Canon(a[n]))
	}
	return sb.String()
}

func subst(v types.Value, sc *scenario, a assignment) types.Value {
	switch t := v.(type) {
	case types.EntityUID:
		for _, n := range sc.names {
			if v == batch.Variable(n) {
				return a[n]
			}
		}
		return v
	case types.Record:
		m := types.RecordMap{}
		for k, x := range t.All() {
			m[k] = subst(x, sc, a)
		}
		return types.NewRecord(m)
	case types.Set:
		var vs []types.Value
		for x := range t.All() {
			vs = append(vs, subst(x, sc, a))
		}
		return types.NewSet(vs...)
	}
	return v
}

func hasMarker(v types.Value, sc *scenario) bool {
	found := map[types.String]bool{}
	names := map[types.String]bool{}
	for _, n := range sc.names {
		names[n] = true
	}
	varsIn(v, names, found)
	return len(found) > 0
}

type expected struct {
	a        assignment
	req      types.Request
	decision types.Decision
	reasons  string
	count    int // multiplicity in the product
}

func reasonSet(d types.Diagnostic) string {
	var rs []string
	for _, x := range d.Reasons {
		rs = append(rs, fmt.Sprintf("%s@%+v", x.PolicyID, x.Position))
	}
	sort.Strings(rs)
	return strings.Join(rs, ",")
}

// product enumerates the Cartesian product with the harness' own loop.
func product(sc *scenario, pols cedar.PolicyIterator) (map[string]*expected, int, bool) {
	out := map[string]*expected{}
	total := 0
	valid := true
	var rec func(i int, a assignment)
	rec = func(i int, a assignment) {
		if i == len(sc.names) {
			total++
			k := a.key(sc.names)
			if e, ok := out[k]; ok {
				e.count++
				return
			}
			p, ok1 := subst(sc.req.Principal, sc, a).(types.EntityUID)
			ac, ok2 := subst(sc.req.Action, sc, a).(types.EntityUID)
			rs, ok3 := subst(sc.req.Resource, sc, a).(types.EntityUID)
			cx, ok4 := subst(sc.req.Context, sc, a).(types.Record)
			if !(ok1 && ok2 && ok3 && ok4) {
				valid = false
				return
			}
			q := types.Request{Principal: p, Action: ac, Resource: rs, Context: cx}
			d, diag := cedar.Authorize(pols, sc.ents, q)
			out[k] = &expected{a: maps.Clone(a), req: q, decision: d, reasons: reasonSet(diag), count: 1}
			return
		}
		n := sc.names[i]
		for _, v := range sc.req.Variables[n] {
			a[n] = v
			rec(i+1, a)
		}
		delete(a, n)
	}
	rec(0, assignment{})
	return out, total, valid
}

// ---------------------------------------------------------------------------------
// one batch execution under a fault plan

type plan struct {
	errFlavour int    // cb-error: 0 wrapped sentinel, 1 wraps context.Canceled of a foreign context, 2 wraps context.DeadlineExceeded, 3 bare sentinel
	kind       string // "none" | "cb-error" | "cb-cancel" | "pre-cancel" | "step-cancel"
	k          int    // 1-based callback index for cb-*
	step       uint64 // relative step for step-cancel
	deadline   bool
}

func (p plan) String() string {
	switch p.kind {
	case "cb-error", "cb-cancel":
		return fmt.Sprintf("%s@k=%d deadline=%v error-flavour=%d", p.kind, p.k, p.deadline, p.errFlavour)
	case "step-cancel":
		return fmt.Sprintf("step-cancel@+%d deadline=%v", p.step, p.deadline)
	}
	return p.kind
}

type delivered struct {
	key       string
	res       batch.Result
	startStep uint64
}

type outcome struct {
	cbs        []delivered
	ret        error
	startStep  uint64
	endStep    uint64
	cancelStep uint64
	cancelled  bool
}

var errCallback = errors.New("simulated callback failure")

// callbackError builds the error the callback fails with.  Whatever it wraps, it is the
// callback's own failure: the batch call must return an error that Is errCallback.
func callbackError(flavour int) error {
	switch flavour {
	case 1:
		// e.g. the callback's own store timed out / was cancelled on a different context
		return fmt.Errorf("store lookup: %w", errors.Join(errCallback, context.Canceled))
	case 2:
		return fmt.Errorf("store lookup: %w", errors.Join(context.DeadlineExceeded, errCallback))
	case 3:
		return errCallback
	}
	return fmt.Errorf("wrapped: %w", errCallback)
}

func execute(r *core.Run, sc *scenario, pols cedar.PolicyIterator, pl plan) outcome {
	sim := r.Sim
	ctx := verifsim.NewSimContext(sim)
	var out outcome
	out.startStep = sim.Steps
	switch pl.kind {
	case "pre-cancel":
		ctx.CancelNow(pl.deadline)
	case "step-cancel":
		ctx.CancelAtStep(sim.Steps+pl.step, pl.deadline)
	}
	cb := func(res batch.Result) error {
		d := delivered{res: res, startStep: sim.Steps}
		d.res.Values = maps.Clone(res.Values)
		a := assignment{}
		for k, v := range d.res.Values {
			a[k] = v
		}
		d.key = a.key(sc.names)
		out.cbs = append(out.cbs, d)
		n := len(out.cbs)
		switch pl.kind {
		case "cb-error":
			if n == pl.k {
				return callbackError(pl.errFlavour)
			}
		case "cb-cancel":
			if n == pl.k {
				ctx.CancelNow(pl.deadline)
			}
		}
		return nil
	}
	r.Count("executions")
	sim.Budget(30_000_000) // per batch call
	out.ret = batch.Authorize(ctx, pols, sc.ents, sc.req, cb)
	sim.Budget(50_000_000)
	out.endStep = sim.Steps
	out.cancelled = ctx.Cancelled
	out.cancelStep = ctx.CancelledAtStep
	return out
}

func viol(kind, format string, a ...any) *core.Violation {
	return core.Violationf(kind, kind, format, a...)
}

// checkDelivered verifies that every delivered callback is a correct member of the
// product, and that no member is delivered more often than it occurs.
func checkDelivered(r *core.Run, sc *scenario, exp map[string]*expected, cbs []delivered, pl plan) *core.Violation {
	seen := map[string]int{}
	for i, d := range cbs {
		e, ok := exp[d.key]
		if !ok {
			return viol("callback-not-in-product", "[%s] callback %d reports substitution %s which is not an element of the product", pl, i+1, d.key)
		}
		if len(d.res.Values) != len(sc.names) {
			return viol("callback-values-incomplete", "[%s] callback %d: Values has %d entries, the template has %d variables", pl, i+1, len(d.res.Values), len(sc.names))
		}
		seen[d.key]++
		if seen[d.key] > e.count {
			return viol("callback-duplicated", "[%s] substitution %s delivered %d times, occurs %d times in the product", pl, d.key, seen[d.key], e.count)
		}
		q := d.res.Request
		if hasMarker(q.Principal, sc) || hasMarker(q.Action, sc) || hasMarker(q.Resource, sc) || hasMarker(q.Context, sc) {
			return viol("request-not-substituted", "[%s] callback %d (%s): the request still contains a variable marker: %s", pl, i+1, d.key, reqString(q))
		}
		if !q.Equal(e.req) {
			return viol("request-wrong", "[%s] callback %d (%s): request is %s, the substituted template is %s", pl, i+1, d.key, reqString(q), reqString(e.req))
		}
		if d.res.Decision != e.decision {
			return viol("decision-differs", "[%s] callback %d (%s): batch decision %v, cedar.Authorize on %s gives %v (reasons batch=[%s] authorize=[%s])", pl, i+1, d.key, d.res.Decision, reqString(e.req), e.decision, reasonSet(d.res.Diagnostic), e.reasons)
		}
		if rs := reasonSet(d.res.Diagnostic); rs != e.reasons {
			return viol("reasons-differ", "[%s] callback %d (%s): decision %v, batch reasons [%s], cedar.Authorize on %s gives [%s]; batch errors: %v", pl, i+1, d.key, e.decision, rs, reqString(e.req), e.reasons, d.res.Diagnostic.Errors)
		}
	}
	return nil
}

func reqString(q types.Request) string {
	return fmt.Sprintf("{P=%s A=%s R=%s C=%s}", q.Principal, q.Action, q.Resource, gen.Canon(q.Context))
}

func (p Prop) Run(r *core.Run) *core.Violation {
	r.Sim.OrderMode = verifsim.OrderCanonical
	r.Sim.Activate()
	sc := genScenario(r)
	r.Sim.Deactivate()
	sim := r.Sim
	sim.OrderMode = verifsim.OrderTape
	if r.T.Intn(6) == 5 {
		sim.OrderMode = verifsim.OrderCanonical
	}
	sim.Activate()
	defer sim.Deactivate()
	pols := sc.policies(r)
	if r.Tracing {
		r.Quiet(func() {
			for i := range sc.ids {
				r.Logf("policy %s: %s", sc.ids[i], sc.texts[i])
			}
			r.Logf("entities: %s", sc.entsStr)
			r.Logf("template: P=%v A=%v R=%v C=%s custom-iterator=%v", sc.req.Principal, sc.req.Action, sc.req.Resource, gen.Canon(sc.req.Context), sc.customIter)
			for _, n := range sc.names {
				var vs []string
				for _, v := range sc.req.Variables[n] {
					vs = append(vs, gen.Canon(v))
				}
				r.Logf("variable %s in [%s]", n, strings.Join(vs, ", "))
			}
		})
	}
	exp, N, valid := product(sc, pols)
	if !valid {
		r.Count("gen.invalid_template")
		return nil
	}
	r.Logf("product size N=%d (%d distinct substitutions)", N, len(exp))

	// ---- fault-free class
	free := execute(r, sc, pols, plan{kind: "none"})
	r.Obs(N, len(free.cbs), fmt.Sprint(free.ret))
	for i, d := range free.cbs {
		r.Logf("callback %d: %s -> %v reasons=[%s] errors=%d", i+1, d.key, d.res.Decision, reasonSet(d.res.Diagnostic), len(d.res.Diagnostic.Errors))
		r.Obs(d.key, d.res.Decision, reasonSet(d.res.Diagnostic))
	}
	if free.ret != nil {
		return viol("fault-free-error", "fault-free batch returned %v (N=%d)", free.ret, N)
	}
	if v := checkDelivered(r, sc, exp, free.cbs, plan{kind: "none"}); v != nil {
		return v
	}
	if len(free.cbs) != N {
		return viol("callback-count", "fault-free batch invoked the callback %d times, the product has %d elements", len(free.cbs), N)
	}
	// reach
	if N >= 2 {
		r.Count("reach.product_ge_2")
	}
	if N == 0 {
		r.Count("reach.empty_product")
	}
	if sc.nested {
		r.Count("reach.variable_nested_in_context")
	}
	if len(sc.names) >= 2 {
		r.Count("reach.several_variables")
	}
	allow, reasons := 0, 0
	for _, e := range exp {
		if e.decision == types.Allow {
			allow++
		}
		if e.reasons != "" {
			reasons++
		}
	}
	if allow > 0 && allow < len(exp) {
		r.Count("reach.mixed_decisions_within_product")
	}
	if reasons > 0 {
		r.Count("reach.product_with_reasons")
	}
	if N >= 2 && sc.nested {
		h := fnv.New64a()
		for _, v := range r.T.Rec {
			fmt.Fprintf(h, "%d,", v)
		}
		r.Nontrivial(h.Sum64())
	}
	if r.T.Pos()%41 == 0 || r.Tracing {
		r.Quiet(func() {
			r.Sample(map[string]any{"policies": sc.texts, "template": fmt.Sprintf("P=%v A=%v R=%v C=%s", sc.req.Principal, sc.req.Action, sc.req.Resource, gen.Canon(sc.req.Context)), "variables": sc.names, "product": N, "fault_plans": 2*N + 2})
		})
	}
	var maxGap uint64 = 1
	prev := free.startStep
	for _, d := range free.cbs {
		if g := d.startStep - prev; g > maxGap {
			maxGap = g
		}
		prev = d.startStep
	}
	if g := free.endStep - prev; g > maxGap {
		maxGap = g
	}

	// ---- fault class: every k
	for k := 1; k <= N; k++ {
		for _, kind := range []string{"cb-error", "cb-cancel"} {
			pl := plan{kind: kind, k: k, deadline: kind == "cb-cancel" && r.T.Bool()}
			if kind == "cb-error" {
				pl.errFlavour = r.T.Intn(4)
			}
			o := execute(r, sc, pols, pl)
			r.Count("fault." + kind)
			r.Obs(pl.String(), len(o.cbs), fmt.Sprint(o.ret))
			r.Logf("[%s] -> %d callbacks, returned %v", pl, len(o.cbs), o.ret)
			if v := checkDelivered(r, sc, exp, o.cbs, pl); v != nil {
				return v
			}
			if len(o.cbs) != k {
				return viol("enumeration-not-stopped", "[%s] %d callbacks happened, expected exactly %d (N=%d); returned %v", pl, len(o.cbs), k, N, o.ret)
			}
			if kind == "cb-error" {
				if !errors.Is(o.ret, errCallback) {
					return viol("callback-error-lost", "[%s] batch returned %v, expected the callback's error", pl, o.ret)
				}
			} else {
				want := context.Canceled
				if pl.deadline {
					want = context.DeadlineExceeded
				}
				if !errors.Is(o.ret, want) && !(k == N && o.ret == nil) {
					return viol("cancel-error-lost", "[%s] batch returned %v, expected %v", pl, o.ret, want)
				}
			}
		}
	}
	// ---- cancelled before the call
	{
		pl := plan{kind: "pre-cancel", deadline: r.T.Bool()}
		o := execute(r, sc, pols, pl)
		r.Count("fault.pre-cancel")
		r.Logf("[%s] -> %d callbacks, returned %v", pl, len(o.cbs), o.ret)
		want := context.Canceled
		if pl.deadline {
			want = context.DeadlineExceeded
		}
		if len(o.cbs) != 0 {
			return viol("enumeration-not-stopped", "[%s] %d callbacks happened although the context was cancelled before the call", pl, len(o.cbs))
		}
		if !errors.Is(o.ret, want) && !(N == 0 && o.ret == nil) {
			return viol("cancel-error-lost", "[%s] batch returned %v, expected %v", pl, o.ret, want)
		}
	}
	// ---- cancellation at logical instants
	total := free.endStep - free.startStep
	if total > 0 && N > 0 {
		var instants []uint64
		ns := 3
		if r.Tier == "thorough" {
			ns = 8
		}
		for i := 0; i < ns; i++ {
			instants = append(instants, 1+uint64(r.T.Intn(int(total))))
		}
		// the instant each callback starts (and the step before / after)
		for i, d := range free.cbs {
			if r.Tier != "thorough" && i >= 6 {
				break
			}
			rel := d.startStep - free.startStep
			instants = append(instants, rel, rel+1)
			if rel > 1 {
				instants = append(instants, rel-1)
			}
		}
		for _, t := range instants {
			if t == 0 {
				t = 1
			}
			pl := plan{kind: "step-cancel", step: t, deadline: r.T.Bool()}
			o := execute(r, sc, pols, pl)
			r.Count("fault.step-cancel")
			r.Obs(pl.String(), len(o.cbs), fmt.Sprint(o.ret))
			r.Logf("[%s] -> cancelled=%v at step %d, %d callbacks, returned %v after %d steps", pl, o.cancelled, o.cancelStep-o.startStep, len(o.cbs), o.ret, o.endStep-o.startStep)
			if v := checkDelivered(r, sc, exp, o.cbs, pl); v != nil {
				return v
			}
			if !o.cancelled {
				// the call finished before the instant: must be a complete fault-free run
				if len(o.cbs) != N || o.ret != nil {
					return viol("callback-count", "[%s] not reached; %d callbacks of %d, returned %v", pl, len(o.cbs), N, o.ret)
				}
				continue
			}
			r.Count("reach.cancel_fired_in_flight")
			after := 0
			for _, d := range o.cbs {
				if d.startStep > o.cancelStep {
					after++
				}
			}
			if after > 1 {
				return viol("enumeration-not-stopped", "[%s] %d callbacks started after the cancellation became visible (at most the one in flight may)", pl, after)
			}
			if after == 1 {
				r.Count("reach.one_callback_after_cancel")
			}
			want := context.Canceled
			if pl.deadline {
				want = context.DeadlineExceeded
			}
			if !errors.Is(o.ret, want) && !(len(o.cbs) == N && o.ret == nil) {
				return viol("cancel-error-lost", "[%s] batch returned %v after %d of %d callbacks, expected %v", pl, o.ret, len(o.cbs), N, want)
			}
			if lag := o.endStep - o.cancelStep; lag > 3*maxGap+2000 {
				return viol("cancel-not-prompt", "[%s] the call kept running for %d steps after the cancellation (largest fault-free gap between callbacks: %d steps)", pl, lag, maxGap)
			}
		}
	}
	return nil
}
