package c19

import (
	"flag"
	"fmt"
	"os"
	"runtime"
	"sync"
	"sync/atomic"
	"time"

	"github.com/cedar-policy/cedar-go/internal/verifsim"
	"github.com/cedar-policy/cedar-go/verifharness/core"
)

// RaceMain is mode 3: the same fixtures and read-only operations, executed by free-running
// goroutines on all Ps in a binary built with -race.  This is runtime monitoring, not
// deterministic simulation: which interleavings occur is up to the Go scheduler (nudged by
// sparse Gosched calls at yield points).  The race detector has no false positives; a
// report is a genuine data race.  With GORACE=halt_on_error=1 the process exits 66.
func RaceMain(args []string) int {
	fs := flag.NewFlagSet("race", flag.ExitOnError)
	seed := fs.Uint64("seed", 1, "")
	budget := fs.Float64("budget", 10, "seconds")
	goroutines := fs.Int("goroutines", 8, "")
	fs.Parse(args)
	start := time.Now()
	var yields atomic.Uint64
	var fixturesRun, opsRun uint64
	for i := 0; time.Since(start).Seconds() < *budget; i++ {
		rs := core.RunSeed(*seed, "C19-race", 0, i)
		t := verifsim.NewTape(verifsim.Mix(rs, 1))
		s := verifsim.NewTape(verifsim.Mix(rs, 2))
		sim := verifsim.NewSim(t, s)
		r := &core.Run{Sim: sim, T: t, S: s, Tier: "race", Prop: "C19", Seed: rs}
		f := genFixture(r)
		ops := f.operations()
		// per-goroutine operation lists are drawn before the goroutines start
		lists := make([][]int, *goroutines)
		for g := range lists {
			n := 6 + t.Intn(10)
			for k := 0; k < n; k++ {
				lists[g] = append(lists[g], t.Intn(len(ops)))
			}
		}
		every := uint64(3 + t.Intn(200))
		sim.SetRaceLax()
		sim.OnYield(func(site int) {
			if yields.Add(1)%every == 0 {
				runtime.Gosched()
			}
		})
		sim.Activate()
		var wg sync.WaitGroup
		var n atomic.Uint64
		for g := range lists {
			wg.Add(1)
			go func(l []int) {
				defer wg.Done()
				for _, oi := range l {
					_ = ops[oi].run()
					n.Add(1)
				}
			}(lists[g])
		}
		wg.Wait()
		sim.Deactivate()
		fixturesRun++
		opsRun += n.Load()
	}
	fmt.Printf("RACE-MODE seed=%d fixtures=%d operations=%d goroutines=%d yields=%d wall=%.1fs\n", *seed, fixturesRun, opsRun, *goroutines, yields.Load(), time.Since(start).Seconds())
	fmt.Fprintf(os.Stderr, "")
	return 0
}
