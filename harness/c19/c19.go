// Package c19: shared policies and entities – race-free concurrent reads, inputs never
// mutated.  DESIGN.md §4 (C19).
package c19

import (
	"bytes"
	"context"
	"encoding/json"
	"fmt"
	"hash/fnv"
	"sort"
	"strings"

	cedar "github.com/cedar-policy/cedar-go"
	"github.com/cedar-policy/cedar-go/internal/verifsim"
	"github.com/cedar-policy/cedar-go/types"
	"github.com/cedar-policy/cedar-go/verifharness/core"
	"github.com/cedar-policy/cedar-go/verifharness/fixtures"
	"github.com/cedar-policy/cedar-go/verifharness/gen"
	xast "github.com/cedar-policy/cedar-go/x/exp/ast"
	"github.com/cedar-policy/cedar-go/x/exp/batch"
	"github.com/cedar-policy/cedar-go/x/exp/schema"
	"github.com/cedar-policy/cedar-go/x/exp/schema/resolved"
	"github.com/cedar-policy/cedar-go/x/exp/schema/validate"
)

type Prop struct{}

func (Prop) ID() string     { return "C19" }
func (Prop) Level() string  { return "exploration" }
func (Prop) QuickRuns() int { return 500 }
func (Prop) Rule() string {
	return "each run = one generated fixture (policy set of 4-9 policies incl. records, sets, extension values, like, all scope forms; entity map; 3 requests; 2 batch templates; values; one repository schema fixture with its resolved form and a Validator) and either (mode 1) a sequence of read-only operations executed alone with a reflection snapshot of all shared inputs and of every package-level variable of the library taken before, at tape-sampled yield points during (every yield for some runs), and after each operation, or (mode 2) 2-4 tasks of 2-5 read-only operations each, first executed solo, then interleaved by the seeded cooperative scheduler at statement-level yield points, comparing every result with its solo result and the snapshot at every context switch. Non-trivial iff (mode 1) >= 1 in-flight snapshot was compared or (mode 2) >= 2 context switches happened inside operations; distinct = distinct hash of (fixture tape, operation lists, schedule hash). A third, non-deterministic mode (real parallelism under the Go race detector) is run by the check as a separate binary and is labelled runtime monitoring."
}
func (Prop) Assumptions() []string {
	return []string{
		"two read-only calls can only race on memory reachable from shared inputs or package-level variables, and a race needs a write: no read-only operation may change the snapshot of the shared inputs at any checked yield point (violation); writes to package-level variables are reported in the evidence but are not a violation by themselves (a synchronised cache or pool is legal) - their race-freedom is left to the interleaving comparison and the race-detector mode",
		"the reflection walker cannot see closure-captured variables or runtime-internal pools; writes that store the value already present are invisible; the race-detector mode covers these blind spots without replayability",
		"the cooperative scheduler explores interleavings at statement granularity under sequential consistency",
		"results are compared after sorting reasons/errors (their order is not promised)",
	}
}
func (Prop) Components() (real, stub []string) {
	return []string{"cedar.Authorize, PolicySet, Policy accessors and codecs", "x/exp/batch.Authorize", "internal/eval (evaluators, partial evaluation, folding)", "types (values, entities, JSON)", "x/exp/schema, resolved, validate"},
		[]string{"caller goroutines (cooperative scheduler: one baton, every preemption from the schedule tape)", "map iteration order (verifsim.RangeMap)", "logical clock (yield points)"}
}
func (Prop) Refine(v *core.Violation, t, s []uint32, exec func(t, s []uint32) (*core.Violation, *core.Run)) *core.Violation {
	return v
}

// ---------------------------------------------------------------------------------
// fixture

var covering = []string{
	`permit (principal == User::"a", action in [Action::"a", Action::"b"], resource is Doc in Group::"a") when { context.name like "a*" && resource has "na me" };`,
	`forbid (principal in Group::"b", action, resource) unless { {a: context.a, b: [1, 2, context.b]}.b.contains(2) };`,
	`permit (principal is User, action == Action::"a", resource) when { ip("10.0.0.1").isInRange(ip("10.0.0.0/8")) && decimal("1.5").lessThan(decimal("2.0")) };`,
	`@id("x") @note("n") permit (principal, action, resource) when { if context has a then context.a == principal else [principal, resource].containsAny([User::"a"]) };`,
	`permit (principal, action, resource) when { datetime("2024-01-01").offset(duration("1d")) > datetime("2023-12-31") && 1 + 2 * 3 == 7 };`,
	`permit (principal, action, resource) when { principal.a + 1 > 0 || resource.hasTag("k") };`,
	`forbid (principal, action, resource) when { {a: 1 + "x", b: principal.missing}.a };`,
	`permit (principal, action, resource) when { principal in [context.a, User::"a"] && (1 + 1 == 2) && !(false || context.b == 3) };`,
	`permit (principal, action, resource) when { ip(context.name).isInRange(ip("10.0.0.0/8")) || decimal(context.a).greaterThan(decimal("1.0")) };`,
	`forbid (principal, action, resource) when { datetime(context.name) > datetime("2024-01-01") || duration(context.b).toHours() > 1 };`,
	`permit (principal, action, resource) when { [principal, context.a, resource].contains(User::"a") && {x: context.a, y: principal}.y == principal };`,
	`permit (principal, action, resource) when { context.name like "1*" && principal.name like "*a*" };`,
	`permit (principal, action, resource) when { [1, true, context.a].contains(true) && [context.b, 1, true].containsAny([true]) };`,
	// tags, and constant conditions nested in records / tag keys (folding and the validator look inside)
	`permit (principal, action, resource) when { principal.hasTag(context.name) && principal.getTag(context.name) == "v" };`,
	`permit (principal, action, resource) when { resource.getTag(if true then "k" else "j") == "v" || principal.getTag({k: "a", j: (if false then "x" else "k")}.j) like "*" };`,
	`forbid (principal, action, resource) when { {a: (if 1 == 1 then context.a else context.b), b: [if false then 1 else 2]}.b.contains(2) && resource.hasTag("k") };`,
}

type fixture struct {
	ps       *cedar.PolicySet
	ids      []cedar.PolicyID
	pols     []*cedar.Policy
	ents     types.EntityMap
	reqs     []types.Request
	breqs    []batch.Request
	vals     []types.Value
	set      types.Set
	rec      types.Record
	schema   *schema.Schema
	resolved *resolved.Schema
	val      *validate.Validator
	spols    []*cedar.Policy
	sents    types.EntityMap
	texts    []string
	fxName   string
	zeroPS   *cedar.PolicySet // a zero-value set that nobody has added to yet
	plist    cedar.PolicyList // a list that is not in document order (collected, reversed)
}

func (f *fixture) roots() ([]any, []string) {
	return []any{f.ps, f.pols, f.ents, f.reqs, f.breqs, f.vals, f.set, f.rec, f.schema, f.resolved, f.val, f.spols, f.sents, f.zeroPS, f.plist},
		[]string{"policy set", "policies", "entity map", "requests", "batch requests", "values", "set value", "record value", "schema", "resolved schema", "validator", "schema fixture policies", "schema fixture entities", "zero-value policy set", "policy list (not in document order)"}
}

func genFixture(r *core.Run) *fixture {
	g := gen.New(r.T)
	g.Swarm()
	f := &fixture{ps: cedar.NewPolicySet(), zeroPS: &cedar.PolicySet{}}
	n := 4 + r.T.Intn(6)
	for i := 0; i < n; i++ {
		var txt string
		if r.T.Intn(3) != 2 {
			txt = covering[r.T.Intn(len(covering))]
		} else {
			txt = g.PolicyText()
		}
		pp, how, err := gen.ParsePolicy(r.T, txt)
		if err != nil {
			continue
		}
		id := cedar.PolicyID(fmt.Sprintf("p%d", i))
		f.ps.Add(id, pp)
		f.ids = append(f.ids, id)
		f.pols = append(f.pols, pp)
		f.texts = append(f.texts, txt+"   // built via "+how)
	}
	if r.T.Intn(3) == 2 && len(f.ids) > 0 {
		// the same set, but loaded from JSON (a different construction path)
		if b, err := f.ps.MarshalJSON(); err == nil {
			var ps2 cedar.PolicySet
			if err := ps2.UnmarshalJSON(b); err == nil {
				f.ps = &ps2
				f.pols = f.pols[:0]
				for _, id := range f.ids {
					f.pols = append(f.pols, ps2.Get(id))
				}
			}
		}
	}
	f.ents = g.Entities()
	if r.T.Intn(4) == 3 {
		// a legal Go value: the entity's own UID field left at its zero value
		k := types.NewEntityUID("Doc", "unset")
		f.ents[k] = types.Entity{Parents: types.NewEntityUIDSet(g.UID()), Attributes: g.Record(0)}
	}
	for i := 0; i < 3; i++ {
		f.reqs = append(f.reqs, g.Request())
	}
	// contexts with strings that extension constructors accept, so that ip(context.name) etc.
	// are evaluated (not only fail) per request
	if r.T.Bool() {
		cm := f.reqs[0].Context.Map()
		if cm == nil {
			cm = types.RecordMap{}
		}
		cm["name"] = types.String([]string{"10.0.0.1", "127.0.0.1", "2024-06-01", "192.168.1.1"}[r.T.Intn(4)])
		cm["a"] = types.String("1.5")
		cm["b"] = types.String("2h")
		f.reqs[0].Context = types.NewRecord(cm)
		cm2 := f.reqs[1].Context.Map()
		if cm2 == nil {
			cm2 = types.RecordMap{}
		}
		cm2["name"] = types.String([]string{"10.9.9.9", "::1", "2023-01-01", "8.8.8.8"}[r.T.Intn(4)])
		f.reqs[1].Context = types.NewRecord(cm2)
	}
	for i := 0; i < 2; i++ {
		q := f.reqs[i]
		// value lists with repeated members: an in-place "clean-up" of the caller's slice shows
		u1, u2, u3 := g.UID(), g.UID(), g.UID()
		rvals := [][]types.Value{{u1, u2}, {u1, u1, u2}, {u1, u2, u1, u3}, {u1, u1, u2, u2, u3}}[r.T.Intn(4)]
		br := batch.Request{Principal: q.Principal, Action: q.Action, Resource: batch.Variable("r"), Variables: batch.Variables{"r": rvals}}
		cm := types.RecordMap{}
		for k, v := range q.Context.All() {
			cm[k] = v
		}
		if i == 1 {
			cm["a"] = batch.Variable("c")
			cm["b"] = types.NewSet(batch.Variable("c"), types.Long(2))
			cv := g.Value(1)
			br.Variables["c"] = []types.Value{cv, cv, g.UID()}
		}
		br.Context = types.NewRecord(cm)
		f.breqs = append(f.breqs, br)
	}
	for i := 0; i < 3; i++ {
		f.vals = append(f.vals, g.Value(2))
	}
	f.set = types.NewSet(g.Value(1), g.Value(1), types.Long(1), types.True, types.NewDurationFromMillis(1))
	f.rec = g.Record(2)
	fx := fixtures.Pick(r.T)
	if fx != nil {
		f.fxName = fx.Name
		var s schema.Schema
		if err := s.UnmarshalCedar(fx.Cedar); err == nil {
			f.schema = &s
			if rs, err := s.Resolve(); err == nil {
				f.resolved = rs
				f.val = validate.New(rs)
			}
		}
		if fx.Policies != nil {
			if list, err := cedar.NewPolicyListFromBytes("fx.cedar", fx.Policies); err == nil {
				f.spols = list
			}
		}
		if fx.Entities != nil {
			var em types.EntityMap
			if err := json.Unmarshal(fx.Entities, &em); err == nil {
				f.sents = em
			}
		}
	}
	// a policy list in an order other than its document order: a multi-statement document,
	// reversed and with the fixture's policies in front
	if list, err := cedar.NewPolicyListFromBytes("list.cedar", []byte(strings.Join(f.texts, "\n"))); err == nil {
		for i := len(list) - 1; i >= 0; i-- {
			f.plist = append(f.plist, list[i])
		}
	}
	f.plist = append(f.plist, f.spols...)
	return f
}

// ---------------------------------------------------------------------------------
// read-only operations

const aliasingMarker = "ALIASING DETECTED:"

type operation struct {
	name string
	run  func() string
}

func diagString(dec cedar.Decision, d cedar.Diagnostic) string {
	var rs, es []string
	for _, r := range d.Reasons {
		rs = append(rs, fmt.Sprintf("%s@%+v", r.PolicyID, r.Position))
	}
	for _, e := range d.Errors {
		es = append(es, fmt.Sprintf("%s@%+v:%s", e.PolicyID, e.Position, e.Message))
	}
	sort.Strings(rs)
	sort.Strings(es)
	return fmt.Sprintf("%v reasons=%q errors=%q", dec, rs, es)
}

func errString(err error) string {
	if err == nil {
		return "ok"
	}
	return "error: " + err.Error()
}

func (f *fixture) operations() []operation {
	var ops []operation
	add := func(name string, run func() string) { ops = append(ops, operation{name, run}) }
	for i := range f.reqs {
		q := f.reqs[i]
		add(fmt.Sprintf("Authorize(req%d)", i), func() string { d, g := cedar.Authorize(f.ps, f.ents, q); return diagString(d, g) })
	}
	add("PolicySet.IsAuthorized(req0)", func() string { d, g := f.ps.IsAuthorized(f.ents, f.reqs[0]); return diagString(d, g) })
	for i := range f.breqs {
		br := f.breqs[i]
		add(fmt.Sprintf("batch.Authorize(template%d)", i), func() string {
			var res []string
			err := batch.Authorize(context.Background(), f.ps, f.ents, br, func(r batch.Result) error {
				var vs []string
				for k, v := range r.Values {
					vs = append(vs, string(k)+"="+gen.Canon(v))
				}
				sort.Strings(vs)
				res = append(res, strings.Join(vs, ";")+" -> "+diagString(r.Decision, r.Diagnostic))
				return nil
			})
			sort.Strings(res)
			return errString(err) + " " + strings.Join(res, " | ")
		})
	}
	add("PolicySet.MarshalCedar", func() string { return string(f.ps.MarshalCedar()) })
	add("PolicySet.MarshalJSON", func() string { b, err := f.ps.MarshalJSON(); return string(b) + errString(err) })
	add("Policy.MarshalCedar/JSON (all)", func() string {
		var sb strings.Builder
		for _, p := range f.pols {
			sb.Write(p.MarshalCedar())
			b, _ := p.MarshalJSON()
			sb.Write(b)
		}
		return sb.String()
	})
	add("Policy.MarshalCedar/JSON (outputs held across calls)", func() string {
		// the byte slices a caller received must stay what they were while it (or another
		// goroutine) keeps marshalling
		var held [][]byte
		var copies []string
		for _, p := range f.pols {
			o := p.MarshalCedar()
			held, copies = append(held, o), append(copies, string(o))
			if j, err := p.MarshalJSON(); err == nil {
				held, copies = append(held, j), append(copies, string(j))
			}
		}
		o := f.ps.MarshalCedar()
		held, copies = append(held, o), append(copies, string(o))
		for i := range held {
			if string(held[i]) != copies[i] {
				return fmt.Sprintf("%s output %d was overwritten while held: %q, was %q", aliasingMarker, i, held[i], copies[i])
			}
		}
		return strings.Join(copies, "|")
	})
	add("PolicyList.MarshalCedar (list not in document order)", func() string {
		return string(f.plist.MarshalCedar())
	})
	add("Encoder.Encode (all)", func() string {
		var buf bytes.Buffer
		enc := cedar.NewEncoder(&buf)
		for _, p := range f.pols {
			if err := enc.Encode(p); err != nil {
				return "error"
			}
		}
		return buf.String()
	})
	add("PolicySet.Get/All/Map", func() string {
		var ids []string
		for id, p := range f.ps.All() {
			ids = append(ids, fmt.Sprintf("%s:%v", id, p == f.ps.Get(id)))
		}
		sort.Strings(ids)
		return fmt.Sprint(ids, len(f.ps.Map()))
	})
	add("read-only calls on a zero-value PolicySet", func() string {
		n := 0
		for range f.zeroPS.All() {
			n++
		}
		d, g := cedar.Authorize(f.zeroPS, f.ents, f.reqs[0])
		j, err := f.zeroPS.MarshalJSON()
		return fmt.Sprint(n, f.zeroPS.Get("x") == nil, len(f.zeroPS.Map()), string(f.zeroPS.MarshalCedar()), string(j), err, diagString(d, g))
	})
	add("Policy.AST/Annotations/Position/Effect", func() string {
		var sb strings.Builder
		for _, p := range f.pols {
			scratch := p.Annotations()
			scratch["intruder"] = "written by the caller into its own copy"
			for k := range scratch {
				if k != "intruder" {
					delete(scratch, k)
				}
			}
			an := p.Annotations()
			var ks []string
			for k, v := range an {
				ks = append(ks, string(k)+"="+string(v))
			}
			sort.Strings(ks)
			fmt.Fprintf(&sb, "%v %+v %v %d;", ks, p.Position(), p.Effect(), len(p.AST().Conditions))
		}
		return sb.String()
	})
	add("Value.Equal/String/Contains", func() string {
		var sb strings.Builder
		for _, a := range f.vals {
			for _, b := range f.vals {
				fmt.Fprintf(&sb, "%v", a.Equal(b))
			}
			fmt.Fprintf(&sb, " %s %v %v;", a.String(), f.set.Contains(a), f.set.Equal(a))
		}
		// members that collide in the internal hash: lookups probe past the home slot
		fmt.Fprintf(&sb, "%v%v%v%v", f.set.Contains(types.True), f.set.Contains(types.Long(1)), f.set.Contains(types.NewDurationFromMillis(1)), f.set.Contains(types.Long(2)))
		fmt.Fprintf(&sb, "%s %s %d", f.set.String(), f.rec.String(), f.rec.Len())
		return sb.String()
	})
	add("json.Marshal(entities, values, requests)", func() string {
		b1, _ := json.Marshal(f.ents)
		b2, _ := json.Marshal(f.vals)
		b3, _ := json.Marshal(f.reqs)
		return string(b1) + string(b2) + string(b3)
	})
	if f.schema != nil {
		add("Schema.MarshalCedar/MarshalJSON", func() string {
			b1, e1 := f.schema.MarshalCedar()
			b2, e2 := f.schema.MarshalJSON()
			return string(b1) + string(b2) + errString(e1) + errString(e2)
		})
		add("Schema.Resolve", func() string {
			rs, err := f.schema.Resolve()
			if err != nil {
				return errString(err)
			}
			return fmt.Sprint(len(rs.Entities), len(rs.Actions), len(rs.Enums))
		})
	}
	if f.val != nil {
		add("Validator.Policy (fixture + own policies)", func() string {
			var sb strings.Builder
			for i, p := range f.spols {
				sb.WriteString(errString(f.val.Policy(fmt.Sprintf("policy%d", i), (*xast.Policy)(p.AST()))) + ";")
			}
			for i, p := range f.pols {
				sb.WriteString(errString(f.val.Policy(string(f.ids[i]), (*xast.Policy)(p.AST()))) + ";")
			}
			return sb.String()
		})
		add("Validator.Entities/Entity", func() string {
			var sb strings.Builder
			sb.WriteString(errString(f.val.Entities(f.sents)))
			sb.WriteString(errString(f.val.Entities(f.ents)))
			return sb.String()
		})
		add("Validator.Request", func() string {
			var sb strings.Builder
			for _, q := range f.reqs {
				sb.WriteString(errString(f.val.Request(q)) + ";")
			}
			return sb.String()
		})
	}
	return ops
}

// ---------------------------------------------------------------------------------
// snapshots

type snap struct {
	roots   []uint64
	globals []uint64
}

func takeSnap(roots []any) snap {
	return snap{roots: verifsim.SnapshotMany(roots), globals: verifsim.SnapshotGlobals()}
}

// diff names the first shared input that differs.  Package-level variables are NOT part of
// the verdict: the property forbids modifying the policies, entities, requests and values
// passed in, and data races; a correctly synchronised internal cache or pool (sync.Pool,
// atomics) writes package-level state without breaking it.  Whether such writes are
// race-free is decided by the interleaving results and by the race-detector mode; here they
// are only reported (globalsWritten) so that the evidence shows when the "no shared writes"
// premise does not hold.
func (a snap) diff(b snap, names []string) string {
	for i := range a.roots {
		if a.roots[i] != b.roots[i] {
			return "shared input: " + names[i]
		}
	}
	return ""
}

func (a snap) globalsWritten(b snap) []string {
	var out []string
	for i := range a.globals {
		if a.globals[i] != b.globals[i] {
			out = append(out, strings.TrimPrefix(verifsim.Globals[i].Name, "github.com/cedar-policy/cedar-go/"))
		}
	}
	return out
}

func viol(kind, sig, format string, a ...any) *core.Violation {
	return core.Violationf(kind, sig, format, a...)
}

// ---------------------------------------------------------------------------------
// the run

func (p Prop) Run(r *core.Run) *core.Violation {
	r.Sim.OrderMode = verifsim.OrderCanonical
	r.Sim.Activate()
	f := genFixture(r)
	r.Sim.Deactivate()
	ops := f.operations()
	roots, names := f.roots()
	if r.Tracing {
		for i, t := range f.texts {
			r.Logf("policy %s: %s", f.ids[i], t)
		}
		r.Logf("schema fixture: %s (schema=%v validator=%v)", f.fxName, f.schema != nil, f.val != nil)
	}
	mode := 1 + r.T.Intn(2)
	if mode == 1 {
		return p.immutability(r, f, ops, roots, names)
	}
	return p.interleaving(r, f, ops, roots, names)
}

// mode 1: sequential, fine-grained before / during / after comparison.
func (p Prop) immutability(r *core.Run, f *fixture, ops []operation, roots []any, names []string) *core.Violation {
	sim := r.Sim
	sim.OrderMode = verifsim.OrderTape
	sim.Activate()
	defer sim.Deactivate()
	nops := 2 + r.T.Intn(4)
	every := []int{1, 3, 17, 101}[r.T.Intn(4)]
	r.Logf("mode 1 (immutability): %d operations, snapshot every %d yields", nops, every)
	h := fnv.New64a()
	var inflight uint64
	for i := 0; i < nops; i++ {
		op := ops[r.T.Intn(len(ops))]
		fmt.Fprint(h, op.name, ";")
		before := takeSnap(roots)
		var v *core.Violation
		count := 0
		lastSite := -1
		busy := false
		sim.OnYield(func(site int) {
			if busy || v != nil {
				return
			}
			count++
			if count%every != 0 || inflight > 400 {
				lastSite = site
				return
			}
			busy = true
			now := takeSnap(roots)
			inflight++
			if d := before.diff(now, names); d != "" {
				v = viol("input-mutated", "input-mutated:"+op.name+":"+d, "%s modified %s while running (first seen at yield point %s %s, previous check at %s)", op.name, d, core.SiteName(site), core.SiteLoc(site), core.SiteLoc(lastSite))
			}
			lastSite = site
			busy = false
		})
		sim.Budget(100_000_000) // per operation
		res := op.run()
		sim.OnYield(nil)
		if strings.HasPrefix(res, aliasingMarker) {
			return viol("output-aliased", "output-aliased:"+op.name, "%s", res)
		}
		r.Obs(op.name, res)
		r.Logf("op %d: %s -> %d bytes, %d yields", i+1, op.name, len(res), count)
		if v != nil {
			return v
		}
		after := takeSnap(roots)
		if d := before.diff(after, names); d != "" {
			return viol("input-mutated", "input-mutated:"+op.name+":"+d, "%s modified %s (before/after comparison)", op.name, d)
		}
		for _, g := range before.globalsWritten(after) {
			r.Count("info.package_level_variable_written_by_read_only_operation:" + g)
			r.Logf("note: %s wrote package-level variable %s (not a violation by itself; see race-detector mode)", op.name, g)
		}
		r.Count("mode1.operations")
	}
	r.CountN("mode1.inflight_snapshots", inflight)
	if inflight > 0 {
		r.Nontrivial(verifsim.Mix(h.Sum64(), uint64(len(r.T.Rec)), sim.SchedHash))
	}
	if r.T.Pos()%5 == 0 || r.Tracing {
		r.Quiet(func() {
			r.Sample(map[string]any{"mode": "immutability", "operations": nops, "snapshot_every_n_yields": every, "inflight_snapshots": inflight, "snapshot_nodes": verifsim.Nodes(roots), "globals": len(verifsim.Globals), "policies": f.texts, "schema": f.fxName})
		})
	}
	return nil
}

type histEvent struct {
	task   int
	op     string
	invoke uint64
	ret    uint64
}

// mode 2: solo results, then the same operation lists interleaved by the scheduler.
func (p Prop) interleaving(r *core.Run, f *fixture, ops []operation, roots []any, names []string) *core.Violation {
	sim := r.Sim
	sim.OrderMode = verifsim.OrderCanonical
	sim.Activate()
	defer sim.Deactivate()
	ntasks := 2 + r.T.Intn(3)
	lists := make([][]operation, ntasks)
	h := fnv.New64a()
	for t := range lists {
		k := 2 + r.T.Intn(4)
		for i := 0; i < k; i++ {
			op := ops[r.T.Intn(len(ops))]
			lists[t] = append(lists[t], op)
			fmt.Fprint(h, t, op.name, ";")
		}
	}
	// solo phase
	solo := make([][]string, ntasks)
	for t, l := range lists {
		for _, op := range l {
			solo[t] = append(solo[t], op.run())
		}
	}
	before := takeSnap(roots)
	// concurrent phase
	maxGap := []int{30, 200, 2000, 20000}[r.T.Intn(4)]
	sc := verifsim.NewSched(sim, maxGap)
	var v *core.Violation
	var hist []histEvent
	inOp := make([]bool, ntasks)
	var switchesInOps uint64
	sc.OnSwitch = func(from, to, site int) {
		if v != nil {
			return
		}
		if site >= 0 && from >= 0 && from < ntasks && inOp[from] {
			switchesInOps++
		}
		now := takeSnap(roots)
		if d := before.diff(now, names); d != "" {
			v = viol("input-mutated", "input-mutated-concurrent:"+d, "%s changed while tasks were interleaved (seen at the switch task%d->task%d at %s)", d, from, to, core.SiteLoc(site))
		}
	}
	for t := range lists {
		t := t
		sc.Go(func() {
			for i, op := range lists[t] {
				ev := histEvent{task: t, op: op.name, invoke: sc.Seq()}
				inOp[t] = true
				res := op.run()
				inOp[t] = false
				ev.ret = sc.Seq()
				hist = append(hist, ev)
				if strings.HasPrefix(res, aliasingMarker) && v == nil {
					v = viol("output-aliased", "output-aliased:"+op.name, "task %d: %s", t, res)
				}
				if res != solo[t][i] && v == nil {
					v = viol("result-differs-under-interleaving", "result-differs:"+op.name, "task %d: %s returned a different result when interleaved with other read-only calls\n  solo:        %s\n  interleaved: %s", t, op.name, clip(solo[t][i]), clip(res))
				}
			}
		})
	}
	sim.Budget(400_000_000) // all tasks of the concurrent phase
	sc.Run()
	r.Logf("mode 2 (interleaving): %d tasks, max gap %d, %d context switches (%d inside operations)", ntasks, maxGap, len(sc.Events), switchesInOps)
	if r.Tracing {
		for _, e := range hist {
			r.Logf("  history: task%d %s invoke=#%d return=#%d", e.task, e.op, e.invoke, e.ret)
		}
		for i, e := range sc.Events {
			if i > 200 {
				break
			}
			r.Logf("  switch %s (%s)", e, core.SiteLoc(e.Site))
		}
	}
	for _, tp := range sc.Panics {
		if sb, ok := tp.Value.(verifsim.StepBudget); ok {
			panic(sb)
		}
		return viol("panic", "panic-in-task:"+core.PanicSite(tp.Stack), "task %d panicked while interleaved: %v\n%s", tp.Task, tp.Value, tp.Stack)
	}
	if v != nil {
		return v
	}
	r.Obs(len(hist))
	for t := range solo {
		for _, s := range solo[t] {
			r.Obs(s)
		}
	}
	r.Count("mode2.runs")
	r.CountN("mode2.context_switches", uint64(len(sc.Events)))
	r.CountN("mode2.context_switches_inside_operations", switchesInOps)
	if switchesInOps >= 2 {
		r.Nontrivial(verifsim.Mix(h.Sum64(), uint64(len(r.T.Rec)), sim.SchedHash, uint64(len(sc.Events)), hashEvents(sc.Events)))
	}
	if r.T.Pos()%5 == 0 || r.Tracing {
		var hs []string
		for _, e := range hist {
			hs = append(hs, fmt.Sprintf("task%d %s [#%d,#%d]", e.task, e.op, e.invoke, e.ret))
		}
		r.Sample(map[string]any{"mode": "interleaving", "tasks": ntasks, "max_gap": maxGap, "context_switches": len(sc.Events), "inside_operations": switchesInOps, "history": hs})
	}
	return nil
}

func hashEvents(ev []verifsim.SchedEvent) uint64 {
	h := uint64(1469598103934665603)
	for _, e := range ev {
		h = verifsim.Mix(h, e.Step, uint64(e.From+1), uint64(e.To+1))
	}
	return h
}

func clip(s string) string {
	if len(s) > 600 {
		return s[:600] + "…"
	}
	return s
}
