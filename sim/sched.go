package verifsim

import (
	"fmt"
	"runtime/debug"
)

// Sched is a cooperative scheduler for caller goroutines ("tasks").  Tasks are real
// goroutines, but exactly one holds the baton at any time; at a yield point the baton
// holder may hand it to another task.  Every decision (how many yields until the next
// preemption, which task runs next) is a draw from the schedule tape, so an
// interleaving is a pure function of the tape.
type Sched struct {
	sim   *Sim
	tasks []*task
	cur   int
	gap   int // yields until the next scheduling decision
	// MaxGap bounds the distance between preemption points (drawn per decision).
	MaxGap int
	// OnSwitch is called (on the goroutine that gives up the baton) at every context
	// switch and at every task end; used for invariant checks.
	OnSwitch func(from, to int, site int)
	Events   []SchedEvent
	seq      uint64
	allDone  chan struct{}
	Panics   []TaskPanic
}

type SchedEvent struct {
	Seq  uint64 // global event sequence number
	Step uint64
	From int
	To   int
	Site int
}

type TaskPanic struct {
	Task  int
	Value any
	Stack string
}

type task struct {
	id   int
	f    func()
	wake chan struct{}
	done bool
}

func NewSched(sim *Sim, maxGap int) *Sched {
	if maxGap < 1 {
		maxGap = 1
	}
	return &Sched{sim: sim, MaxGap: maxGap, allDone: make(chan struct{})}
}

// Go adds a task.  Must be called before Run.
func (sc *Sched) Go(f func()) int {
	t := &task{id: len(sc.tasks), f: f, wake: make(chan struct{})}
	sc.tasks = append(sc.tasks, t)
	return t.id
}

// Seq returns the next global event sequence number (for history records).
func (sc *Sched) Seq() uint64 { sc.seq++; return sc.seq }

// Cur returns the id of the task holding the baton.
func (sc *Sched) Cur() int { return sc.cur }

func (sc *Sched) drawGap() {
	// small gaps and large gaps both matter: pick a scale first
	switch sc.sim.S.Intn(3) {
	case 0:
		sc.gap = 1 + sc.sim.S.Intn(4)
	case 1:
		sc.gap = 1 + sc.sim.S.Intn(40)
	default:
		sc.gap = 1 + sc.sim.S.Intn(sc.MaxGap)
	}
}

// Run executes all tasks to completion under the scheduler and returns when every task
// has finished.  The calling goroutine does not hold the baton while tasks run.
func (sc *Sched) Run() {
	if len(sc.tasks) == 0 {
		return
	}
	prev := sc.sim.onYield
	sc.sim.onYield = sc.yield
	for _, t := range sc.tasks {
		t := t
		go func() {
			<-t.wake
			Own()
			defer Disown()
			defer sc.finish(t)
			t.f()
		}()
	}
	sc.cur = sc.sim.S.Intn(len(sc.tasks))
	sc.drawGap()
	sc.tasks[sc.cur].wake <- struct{}{}
	<-sc.allDone
	sc.sim.onYield = prev
}

func (sc *Sched) runnable(except int) []int {
	var r []int
	for _, t := range sc.tasks {
		if !t.done && t.id != except {
			r = append(r, t.id)
		}
	}
	return r
}

func (sc *Sched) yield(site int) {
	sc.gap--
	if sc.gap > 0 {
		return
	}
	sc.drawGap()
	r := sc.runnable(sc.cur)
	if len(r) == 0 {
		return
	}
	to := r[sc.sim.S.Intn(len(r))]
	from := sc.cur
	sc.sim.Preemptions++
	sc.Events = append(sc.Events, SchedEvent{Seq: sc.Seq(), Step: sc.sim.Steps, From: from, To: to, Site: site})
	if sc.OnSwitch != nil {
		sc.OnSwitch(from, to, site)
	}
	sc.cur = to
	me := sc.tasks[from]
	sc.tasks[to].wake <- struct{}{}
	<-me.wake
}

func (sc *Sched) finish(t *task) {
	if r := recover(); r != nil {
		sc.Panics = append(sc.Panics, TaskPanic{Task: t.id, Value: r, Stack: string(debug.Stack())})
	}
	t.done = true
	r := sc.runnable(t.id)
	if sc.OnSwitch != nil {
		to := -1
		if len(r) > 0 {
			to = r[0]
		}
		func() {
			defer func() {
				if r := recover(); r != nil {
					sc.Panics = append(sc.Panics, TaskPanic{Task: t.id, Value: r, Stack: string(debug.Stack())})
				}
			}()
			sc.OnSwitch(t.id, to, -1)
		}()
	}
	if len(r) == 0 {
		close(sc.allDone)
		return
	}
	to := r[sc.sim.S.Intn(len(r))]
	sc.Events = append(sc.Events, SchedEvent{Seq: sc.Seq(), Step: sc.sim.Steps, From: t.id, To: to, Site: -1})
	sc.cur = to
	sc.tasks[to].wake <- struct{}{}
}

func (e SchedEvent) String() string {
	return fmt.Sprintf("#%d step=%d task%d->task%d at site %d", e.Seq, e.Step, e.From, e.To, e.Site)
}
