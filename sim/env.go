package verifsim

import (
	"context"
	"errors"
	"io"
	"time"
)

// ---------------------------------------------------------------------------------
// SimReader: an io.Reader whose every Read is decided by a callback (which draws from
// the tape).  It enforces the io.Reader contract on its own side and detects a consumer
// that keeps reading a finished stream (reported by step count, not by wall clock).

type ReadPlan struct {
	N   int   // bytes to deliver (clamped to len(p) and to what is left)
	Err error // error to return together with the N bytes (nil, io.EOF, or a fault)
	// Then, if non-nil, is what every later Read returns after a non-transient Err
	// (default: Err itself).
	Then error
}

type SimReader struct {
	Data []byte
	Pos  int
	// Decide is asked before every Read with the remaining data and the size of p.
	Decide func(r *SimReader, room int) ReadPlan
	// Sticky is the error every later Read returns once set.
	Sticky error

	Calls       int
	AfterFinal  int // Reads after the stream was finished (EOF or sticky error)
	MaxRoom     int
	ZeroReads   int
	DataWithEOF int
	Log         []ReadEvent
	KeepLog     bool
}

type ReadEvent struct {
	Room int
	N    int
	Err  string
	Pos  int
}

// ReaderSpin is the panic value raised when the consumer keeps calling Read on a
// finished reader.
type ReaderSpin struct{ Calls int }

func (r ReaderSpin) Error() string { return "reader polled repeatedly after it finished" }

func (r *SimReader) Read(p []byte) (int, error) {
	r.Calls++
	if len(p) > r.MaxRoom {
		r.MaxRoom = len(p)
	}
	if r.Sticky != nil {
		r.AfterFinal++
		if r.AfterFinal > 64 {
			panic(ReaderSpin{r.Calls})
		}
		r.log(len(p), 0, r.Sticky)
		return 0, r.Sticky
	}
	plan := r.Decide(r, len(p))
	n := plan.N
	if n > len(p) {
		n = len(p)
	}
	if left := len(r.Data) - r.Pos; n > left {
		n = left
	}
	if n < 0 {
		n = 0
	}
	copy(p, r.Data[r.Pos:r.Pos+n])
	r.Pos += n
	err := plan.Err
	if err == nil && r.Pos == len(r.Data) && n == 0 && len(p) > 0 {
		// nothing left and nothing delivered: a Decide that does not say EOF here
		// would make a correct consumer spin; allow a bounded burst only
		r.ZeroReads++
		if r.ZeroReads > 8 {
			err = io.EOF
		}
	} else if n == 0 && err == nil {
		r.ZeroReads++
	}
	if err != nil {
		if err == io.EOF && n > 0 {
			r.DataWithEOF++
		}
		if !errors.Is(err, ErrTransient) {
			r.Sticky = err
			if plan.Then != nil {
				r.Sticky = plan.Then
			}
		}
	}
	r.log(len(p), n, err)
	return n, err
}

func (r *SimReader) log(room, n int, err error) {
	if !r.KeepLog {
		return
	}
	e := ReadEvent{Room: room, N: n, Pos: r.Pos}
	if err != nil {
		e.Err = err.Error()
	}
	r.Log = append(r.Log, e)
}

// ErrTransient marks an injected failure after which the reader resumes.
var ErrTransient = errors.New("simulated transient read failure")

// ErrInjected is the default injected (sticky) reader failure.
var ErrInjected = errors.New("simulated read failure")

// ---------------------------------------------------------------------------------
// SimContext: a context.Context driven by the logical clock.

type SimContext struct {
	sim   *Sim
	done  chan struct{}
	err   error
	dl    bool
	polls int
	// CancelledAtStep / PollsBefore record when the cancellation became visible.
	CancelledAtStep uint64
	Cancelled       bool
}

func NewSimContext(sim *Sim) *SimContext {
	return &SimContext{sim: sim, done: make(chan struct{})}
}

// CancelNow cancels immediately (used from callbacks and step triggers).
func (c *SimContext) CancelNow(deadline bool) {
	if c.Cancelled {
		return
	}
	c.Cancelled = true
	if deadline {
		c.err = context.DeadlineExceeded
	} else {
		c.err = context.Canceled
	}
	if c.sim != nil {
		c.CancelledAtStep = c.sim.Steps
	}
	close(c.done)
}

// CancelAtStep arranges cancellation when the logical clock reaches step.
func (c *SimContext) CancelAtStep(step uint64, deadline bool) {
	c.sim.At(step, func() { c.CancelNow(deadline) })
}

func (c *SimContext) Deadline() (time.Time, bool) { return time.Time{}, false }
func (c *SimContext) Done() <-chan struct{}       { return c.done }
func (c *SimContext) Err() error                  { c.polls++; return c.err }
func (c *SimContext) Value(any) any               { return nil }
func (c *SimContext) Polls() int                  { return c.polls }
