package verifsim

import (
	"fmt"
	"iter"
	"reflect"
	"runtime"
	"sort"
	"sync"
	"sync/atomic"
)

// Sim is the state of one simulated run.  While a Sim is active it owns
//   - the order of every map iteration in the instrumented library (Order tape),
//   - the logical clock (Steps = number of yield points passed),
//   - step triggers (used for "cancel the context at instant T"),
//   - the cooperative scheduler, if one is attached.
type Sim struct {
	T *Tape // scenario / fault choices
	S *Tape // schedule choices: map iteration orders, preemptions

	Steps     uint64
	StepLimit uint64 // exceeding it panics with StepBudget (a hang of the system under test)

	// OrderMode selects how map iteration events are ordered.
	OrderMode OrderMode

	// statistics / reach (plain counters; a run is single threaded or baton-serialised)
	IterEvents   uint64 // map iteration events with >= 2 keys
	IterPermuted uint64 // ... that were not in canonical order
	SchedHash    uint64 // hash of (site, permutation) of every event with >= 2 keys
	LastSites    []int  // sites of non-canonical events (bounded), for culprit naming
	Preemptions  uint64

	// EventLog records, for every map-iteration event served from the schedule tape, its
	// site and the tape positions it consumed (only when RecordEvents is set).
	RecordEvents bool
	EventLog     []IterEvent

	trigAt       uint64
	trigs        []trigger
	onYield      func(site int) // scheduler or fine-grained invariant hook
	raceLax      bool
	foreign      atomic.Bool // the library spawned a goroutine during this run
	lastPermuted bool
	quiet        int // >0: logging / sampling code is running; nothing may be drawn or counted
}

// IterEvent is one map-iteration event with >= 2 keys.
type IterEvent struct {
	Site       int
	Start, End int  // positions on the schedule tape [Start, End)
	Permuted   bool // served in non-canonical order
}

// RecordEventsDefault makes every new Sim record its iteration events (used while a
// violation's schedule is being refined to a single site).
var RecordEventsDefault bool

type OrderMode int

const (
	OrderTape      OrderMode = iota // each event draws from S: 0 canonical, 1 reverse, 2 rotate, 3 shuffle
	OrderCanonical                  // sorted keys everywhere (S not consulted)
	OrderReverse
	OrderNative // leave Go's own randomisation in place (not replayable; used only by the race mode)
)

type trigger struct {
	at uint64
	f  func()
}

// StepBudget is the panic value raised when a run exceeds its step limit.
type StepBudget struct{ Steps uint64 }

func (s StepBudget) Error() string {
	return fmt.Sprintf("step budget exceeded after %d steps", s.Steps)
}

var active atomic.Pointer[Sim]

func NewSim(t, s *Tape) *Sim {
	return &Sim{T: t, S: s, StepLimit: 50_000_000, trigAt: ^uint64(0), RecordEvents: RecordEventsDefault}
}

// Activate makes s the simulator the instrumented code talks to.
func (s *Sim) Activate()   { Own(); active.Store(s) }
func (s *Sim) Deactivate() { active.CompareAndSwap(s, nil) }

// Active returns the active simulator or nil.
func Active() *Sim { return active.Load() }

// ForeignSeen reports whether the library spawned a goroutine during this run.
func (s *Sim) ForeignSeen() bool { return s.foreign.Load() }

// At registers f to run when the logical clock reaches step (absolute).
func (s *Sim) At(step uint64, f func()) {
	s.trigs = append(s.trigs, trigger{step, f})
	if step < s.trigAt {
		s.trigAt = step
	}
}

// Budget sets the step limit to n steps from now.  The budget belongs to one execution of
// the system under test (one decode, one batch call, one container operation), not to a
// whole run, which may perform thousands of executions.
func (s *Sim) Budget(n uint64) { s.StepLimit = s.Steps + n }

// Quiet runs f (trace / sample rendering) without drawing from any tape, counting any
// event or advancing the clock: logging must not perturb the schedule.  Map iterations
// inside f are served in canonical order.
func (s *Sim) Quiet(f func()) {
	s.quiet++
	defer func() { s.quiet-- }()
	f()
}

// OnYield installs a hook that runs at every yield point.
func (s *Sim) OnYield(f func(site int)) { s.onYield = f }

// SetRaceLax switches the simulator into the free-running mode used under the race
// detector: no counters are written (they would be racy), map order is native.
func (s *Sim) SetRaceLax() { s.raceLax = true; s.OrderMode = OrderNative }

// ---------------------------------------------------------------------------------
// goroutines the library spawns itself ("foreign" goroutines)
//
// The unchanged library has no go statements.  When a change adds one, the instrumenter
// marks the spawn site; from the first spawn of a run on, every yield point and
// map-iteration event first checks whether it comes from a goroutine the simulator owns
// (the harness goroutine, scheduler tasks).  Foreign goroutines run freely: their yields
// are ignored and their map iterations use Go's native order.  Such runs are no longer
// exactly replayable; the evidence counts them.

var owners sync.Map // goroutine id -> struct{}

// ForeignSpawns counts go statements executed by library code (process-wide).
var ForeignSpawns atomic.Uint64

func goid() uint64 {
	var buf [64]byte
	n := runtime.Stack(buf[:], false)
	// "goroutine 123 [running]:"
	var id uint64
	for _, c := range buf[10:n] {
		if c < '0' || c > '9' {
			break
		}
		id = id*10 + uint64(c-'0')
	}
	return id
}

// Own registers the calling goroutine as one the simulator owns.
func Own() { owners.Store(goid(), struct{}{}) }

// Disown removes the calling goroutine from the owners.
func Disown() { owners.Delete(goid()) }

func owned() bool {
	_, ok := owners.Load(goid())
	return ok
}

// ForeignSpawn is inserted before every go statement of the library.
func ForeignSpawn(site int) {
	ForeignSpawns.Add(1)
	if s := active.Load(); s != nil {
		s.foreign.Store(true)
	}
}

// Yield is called by instrumented code at function entries, loop iterations and after
// non-local writes.  Inactive simulator: one atomic load.
func Yield(site int) {
	s := active.Load()
	if s == nil {
		return
	}
	if s.raceLax {
		if s.onYield != nil {
			s.onYield(site)
		}
		return
	}
	if s.foreign.Load() && !owned() {
		return // a goroutine the library spawned itself
	}
	if s.quiet > 0 {
		return
	}
	s.Steps++
	if s.Steps >= s.trigAt {
		s.fire()
	}
	if s.Steps > s.StepLimit {
		panic(StepBudget{s.Steps})
	}
	if s.onYield != nil {
		s.onYield(site)
	}
}

func (s *Sim) fire() {
	next := ^uint64(0)
	var run []func()
	keep := s.trigs[:0]
	for _, t := range s.trigs {
		if t.at <= s.Steps {
			run = append(run, t.f)
		} else {
			keep = append(keep, t)
			if t.at < next {
				next = t.at
			}
		}
	}
	s.trigs = keep
	s.trigAt = next
	for _, f := range run {
		f()
	}
}

// ---------------------------------------------------------------------------------
// map iteration seam

// perm returns the order in which n canonically sorted keys are visited, or nil for the
// canonical order.
func (s *Sim) perm(site, n int) []int {
	if s.quiet > 0 {
		return nil
	}
	s.IterEvents++
	var p []int
	start := 0
	if s.RecordEvents && s.OrderMode == OrderTape {
		start = s.S.Pos()
		defer func() {
			s.EventLog = append(s.EventLog, IterEvent{Site: site, Start: start, End: s.S.Pos(), Permuted: s.lastPermuted})
		}()
	}
	s.lastPermuted = false
	switch s.OrderMode {
	case OrderCanonical:
	case OrderReverse:
		p = make([]int, n)
		for i := range p {
			p[i] = n - 1 - i
		}
	case OrderTape:
		switch s.S.Intn(4) {
		case 0:
		case 1:
			p = make([]int, n)
			for i := range p {
				p[i] = n - 1 - i
			}
		case 2:
			k := 1 + s.S.Intn(n-1)
			p = make([]int, n)
			for i := range p {
				p[i] = (i + k) % n
			}
		case 3:
			p = make([]int, n)
			for i := range p {
				p[i] = i
			}
			canon := true
			for i := 0; i < n-1; i++ {
				j := i + s.S.Intn(n-i)
				p[i], p[j] = p[j], p[i]
				if j != i {
					canon = false
				}
			}
			if canon {
				p = nil
			}
		}
	}
	h := s.SchedHash
	h = (h ^ uint64(site+1)) * 0x100000001b3
	if p != nil {
		s.lastPermuted = true
		s.IterPermuted++
		for _, x := range p {
			h = (h ^ uint64(x+7)) * 0x100000001b3
		}
		if len(s.LastSites) < 64 {
			s.LastSites = append(s.LastSites, site)
		}
	}
	s.SchedHash = h
	return p
}

func sortedKeys[M ~map[K]V, K comparable, V any](m M) []K {
	keys := make([]K, 0, len(m))
	for k := range m {
		keys = append(keys, k)
	}
	sortCanonical(keys)
	return keys
}

// RangeMap replaces `range m` in instrumented code.  Every order it produces is an
// order the Go specification allows for ranging over m.
func RangeMap[M ~map[K]V, K comparable, V any](m M, site int) iter.Seq2[K, V] {
	return func(yield func(K, V) bool) {
		s := active.Load()
		if s == nil || s.OrderMode == OrderNative || len(m) < 2 || (s.foreign.Load() && !owned()) {
			for k, v := range m {
				if !yield(k, v) {
					return
				}
			}
			return
		}
		keys := sortedKeys(m)
		p := s.perm(site, len(keys))
		for i := range keys {
			k := keys[i]
			if p != nil {
				k = keys[p[i]]
			}
			v, ok := m[k]
			if !ok {
				continue // deleted during iteration
			}
			if !yield(k, v) {
				return
			}
		}
	}
}

// MapsAll replaces maps.All.
func MapsAll[M ~map[K]V, K comparable, V any](m M, site int) iter.Seq2[K, V] {
	return RangeMap(m, site)
}

// MapsKeys replaces maps.Keys.
func MapsKeys[M ~map[K]V, K comparable, V any](m M, site int) iter.Seq[K] {
	return func(yield func(K) bool) {
		for k := range RangeMap(m, site) {
			if !yield(k) {
				return
			}
		}
	}
}

// MapsValues replaces maps.Values.
func MapsValues[M ~map[K]V, K comparable, V any](m M, site int) iter.Seq[V] {
	return func(yield func(V) bool) {
		for _, v := range RangeMap(m, site) {
			if !yield(v) {
				return
			}
		}
	}
}

// ---------------------------------------------------------------------------------
// canonical key order

func sortCanonical[K comparable](keys []K) {
	switch ks := any(keys).(type) {
	case []string:
		sort.Strings(ks)
		return
	case []uint64:
		sort.Slice(ks, func(i, j int) bool { return ks[i] < ks[j] })
		return
	case []int:
		sort.Ints(ks)
		return
	}
	if len(keys) == 0 {
		return
	}
	// generic path: encode through reflection once per key
	enc := make([]string, len(keys))
	for i := range keys {
		enc[i] = string(EncodeKey(nil, reflect.ValueOf(&keys[i]).Elem()))
	}
	sort.Sort(&byEnc[K]{keys, enc})
}

type byEnc[K any] struct {
	k []K
	e []string
}

func (b *byEnc[K]) Len() int           { return len(b.k) }
func (b *byEnc[K]) Less(i, j int) bool { return b.e[i] < b.e[j] }
func (b *byEnc[K]) Swap(i, j int) {
	b.k[i], b.k[j] = b.k[j], b.k[i]
	b.e[i], b.e[j] = b.e[j], b.e[i]
}

// EncodeKey appends an order-preserving, injective encoding of v (strings, integers,
// booleans, and structs/arrays of those).  Anything else has no canonical order; that is
// machinery trouble, reported by panicking with Unsupported.
func EncodeKey(b []byte, v reflect.Value) []byte {
	switch v.Kind() {
	case reflect.String:
		s := v.String()
		for i := 0; i < len(s); i++ {
			if s[i] == 0 {
				b = append(b, 0, 0xff)
			} else {
				b = append(b, s[i])
			}
		}
		return append(b, 0, 0)
	case reflect.Int, reflect.Int8, reflect.Int16, reflect.Int32, reflect.Int64:
		u := uint64(v.Int()) ^ (1 << 63)
		return append(b, byte(u>>56), byte(u>>48), byte(u>>40), byte(u>>32), byte(u>>24), byte(u>>16), byte(u>>8), byte(u))
	case reflect.Uint, reflect.Uint8, reflect.Uint16, reflect.Uint32, reflect.Uint64, reflect.Uintptr:
		u := v.Uint()
		return append(b, byte(u>>56), byte(u>>48), byte(u>>40), byte(u>>32), byte(u>>24), byte(u>>16), byte(u>>8), byte(u))
	case reflect.Bool:
		if v.Bool() {
			return append(b, 1)
		}
		return append(b, 0)
	case reflect.Struct:
		for i := 0; i < v.NumField(); i++ {
			b = EncodeKey(b, v.Field(i))
		}
		return b
	case reflect.Array:
		for i := 0; i < v.Len(); i++ {
			b = EncodeKey(b, v.Index(i))
		}
		return b
	}
	panic(Unsupported{"map key of kind " + v.Kind().String() + " (" + v.Type().String() + ") has no canonical order"})
}

// Unsupported is raised for constructs the simulator cannot control.  The driver maps it
// to exit status 2 (machinery trouble), never to a violation.
type Unsupported struct{ What string }

func (u Unsupported) Error() string { return "verifsim: unsupported: " + u.What }

// ---------------------------------------------------------------------------------
// globals registry (filled by the generated zz_verif_globals.go of every package)

type Global struct {
	Name string
	Ptr  any // pointer to the variable
}

var (
	Globals  []Global
	Packages []string
)

func RegisterGlobal(name string, ptr any) { Globals = append(Globals, Global{name, ptr}) }
func RegisterPackage(path string)         { Packages = append(Packages, path) }
