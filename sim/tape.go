// Package verifsim is the simulation kernel that the check driver copies into the
// instrumented scratch copy of cedar-go (as internal/verifsim).  Standard library only.
package verifsim

// splitmix64 PRNG.  Every choice of a simulated run is one bounded draw from a Tape.
type rng struct{ s uint64 }

func (r *rng) next() uint64 {
	r.s += 0x9e3779b97f4a7c15
	z := r.s
	z = (z ^ (z >> 30)) * 0xbf58476d1ce4e5b9
	z = (z ^ (z >> 27)) * 0x94d049bb133111eb
	return z ^ (z >> 31)
}

// Mix derives a 64-bit seed from parts.
func Mix(parts ...uint64) uint64 {
	h := uint64(0x243f6a8885a308d3)
	for _, p := range parts {
		h ^= p + 0x9e3779b97f4a7c15 + (h << 6) + (h >> 2)
		r := rng{s: h}
		h = r.next()
	}
	return h
}

// MixString folds a string into a seed.
func MixString(h uint64, s string) uint64 {
	for i := 0; i < len(s); i++ {
		h = (h ^ uint64(s[i])) * 0x100000001b3
	}
	return Mix(h)
}

// A Tape is a sequence of bounded choices.  In record mode the values come from a PRNG
// and are appended to Rec; in replay mode they are read back from a given sequence
// (reduced modulo the bound; an exhausted tape reads 0).  0 is always the "simplest"
// alternative by convention of the generators, so that zeroing or deleting entries
// shrinks a run.
type Tape struct {
	Rec    []uint32
	replay []uint32
	isRep  bool
	pos    int
	r      rng
	Over   int // draws past the end of a replayed tape
}

func NewTape(seed uint64) *Tape { return &Tape{r: rng{s: seed}} }

func ReplayTape(vals []uint32) *Tape {
	return &Tape{replay: vals, isRep: true, Rec: make([]uint32, 0, len(vals))}
}

// Intn returns a value in [0,n).  n <= 1 consumes nothing.
func (t *Tape) Intn(n int) int {
	if n <= 1 {
		return 0
	}
	var v uint32
	if t.isRep {
		if t.pos < len(t.replay) {
			v = t.replay[t.pos] % uint32(n)
		} else {
			t.Over++
		}
		t.pos++
	} else {
		v = uint32(t.r.next() % uint64(n))
	}
	t.Rec = append(t.Rec, v)
	return int(v)
}

// Bool draws a fair coin; false is the simple alternative.
func (t *Tape) Bool() bool { return t.Intn(2) == 1 }

// Chance returns true with probability num/den; false is the simple alternative.
func (t *Tape) Chance(num, den int) bool {
	if num <= 0 {
		return false
	}
	return t.Intn(den) >= den-num
}

// Range draws from [lo,hi].
func (t *Tape) Range(lo, hi int) int { return lo + t.Intn(hi-lo+1) }

// Pos is the number of draws so far.
func (t *Tape) Pos() int { return len(t.Rec) }

// Snapshot returns a copy of the recorded choices.
func (t *Tape) Snapshot() []uint32 { return append([]uint32(nil), t.Rec...) }
