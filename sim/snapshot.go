package verifsim

import (
	"reflect"
	"sort"
)

// Snapshot computes a canonical 64-bit hash of the object graph reachable from root,
// including unexported fields (reflect may read them; it never writes).  Pointer
// identity is encoded as "first visited at index i", so the aliasing structure is part
// of the hash and the result does not depend on addresses.  Maps are walked in canonical
// key order.  Function values contribute only nil / non-nil plus their code pointer
// relative to nothing (code pointers are stable within a process).
func Snapshot(root any) uint64 {
	w := walker{seen: map[uintptr]int{}}
	w.h = 0xcbf29ce484222325
	w.walk(reflect.ValueOf(root), 0)
	return w.h
}

// SnapshotMany hashes several roots independently.
func SnapshotMany(roots []any) []uint64 {
	out := make([]uint64, len(roots))
	for i, r := range roots {
		out[i] = Snapshot(r)
	}
	return out
}

// SnapshotGlobals hashes every registered package-level variable of the library.
func SnapshotGlobals() []uint64 {
	out := make([]uint64, len(Globals))
	for i, g := range Globals {
		out[i] = Snapshot(g.Ptr)
	}
	return out
}

// Nodes counts the nodes visited by the last Snapshot-like walk of root (for evidence).
func Nodes(root any) int {
	w := walker{seen: map[uintptr]int{}}
	w.walk(reflect.ValueOf(root), 0)
	return w.n
}

type walker struct {
	h    uint64
	n    int
	seen map[uintptr]int
}

func (w *walker) mix(x uint64) {
	w.h = (w.h ^ x) * 0x100000001b3
	w.h ^= w.h >> 29
}

func (w *walker) mixs(s string) {
	w.mix(uint64(len(s)))
	for i := 0; i < len(s); i++ {
		w.h = (w.h ^ uint64(s[i])) * 0x100000001b3
	}
}

func (w *walker) walk(v reflect.Value, depth int) {
	w.n++
	if depth > 10000 {
		panic(Unsupported{"snapshot: object graph deeper than 10000"})
	}
	if !v.IsValid() {
		w.mix(0xdead)
		return
	}
	w.mix(uint64(v.Kind()) + 0x100)
	switch v.Kind() {
	case reflect.Bool:
		if v.Bool() {
			w.mix(1)
		} else {
			w.mix(2)
		}
	case reflect.Int, reflect.Int8, reflect.Int16, reflect.Int32, reflect.Int64:
		w.mix(uint64(v.Int()))
	case reflect.Uint, reflect.Uint8, reflect.Uint16, reflect.Uint32, reflect.Uint64, reflect.Uintptr:
		w.mix(v.Uint())
	case reflect.Float32, reflect.Float64:
		w.mix(uint64(int64(v.Float() * 1e6)))
	case reflect.Complex64, reflect.Complex128:
		c := v.Complex()
		w.mix(uint64(int64(real(c) * 1e6)))
		w.mix(uint64(int64(imag(c) * 1e6)))
	case reflect.String:
		w.mixs(v.String())
	case reflect.Pointer:
		if v.IsNil() {
			w.mix(0)
			return
		}
		p := v.Pointer()
		if id, ok := w.seen[p]; ok {
			w.mix(0xa11a5)
			w.mix(uint64(id))
			return
		}
		w.seen[p] = len(w.seen)
		w.walk(v.Elem(), depth+1)
	case reflect.Interface:
		if v.IsNil() {
			w.mix(0)
			return
		}
		e := v.Elem()
		w.mixs(e.Type().String())
		w.walk(e, depth+1)
	case reflect.Struct:
		for i := 0; i < v.NumField(); i++ {
			w.walk(v.Field(i), depth+1)
		}
	case reflect.Array:
		for i := 0; i < v.Len(); i++ {
			w.walk(v.Index(i), depth+1)
		}
	case reflect.Slice:
		if v.IsNil() {
			w.mix(0)
			return
		}
		w.mix(uint64(v.Len()) + 1)
		if v.Type().Elem().Kind() == reflect.Uint8 {
			// byte slices are frequent (buffers): hash content directly
			for i := 0; i < v.Len(); i++ {
				w.h = (w.h ^ v.Index(i).Uint()) * 0x100000001b3
			}
			return
		}
		for i := 0; i < v.Len(); i++ {
			w.walk(v.Index(i), depth+1)
		}
		// the spare capacity behind a shared slice is shared memory too: an append through a
		// shallow copy of the header writes there without changing the length anybody sees
		if c := v.Cap(); c > v.Len() && c-v.Len() <= 64 {
			w.mix(0xcab0)
			ext := v.Slice(0, c)
			for i := v.Len(); i < c; i++ {
				w.walk(ext.Index(i), depth+1)
			}
		}
	case reflect.Map:
		if v.IsNil() {
			w.mix(0)
			return
		}
		p := v.Pointer()
		if id, ok := w.seen[p]; ok {
			w.mix(0xa11a5)
			w.mix(uint64(id))
			return
		}
		w.seen[p] = len(w.seen)
		keys := v.MapKeys()
		w.mix(uint64(len(keys)) + 1)
		enc := make([]string, len(keys))
		for i, k := range keys {
			enc[i] = string(EncodeKey(nil, k))
		}
		idx := make([]int, len(keys))
		for i := range idx {
			idx[i] = i
		}
		sort.Slice(idx, func(a, b int) bool { return enc[idx[a]] < enc[idx[b]] })
		for _, i := range idx {
			w.mixs(enc[i])
			w.walk(v.MapIndex(keys[i]), depth+1)
		}
	case reflect.Func:
		if v.IsNil() {
			w.mix(0)
		} else {
			w.mix(uint64(v.Pointer()))
		}
	case reflect.Chan, reflect.UnsafePointer:
		if v.IsNil() {
			w.mix(0)
		} else {
			w.mix(1)
		}
	default:
		panic(Unsupported{"snapshot: kind " + v.Kind().String()})
	}
}
