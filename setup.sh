#!/bin/bash
# Builds the framework from files on disk only (offline).  The checks rebuild everything
# that depends on /repo themselves; this only warms the Go build cache.
set -e
cd "$(dirname "$0")"
export GOFLAGS=-mod=mod GOPROXY=off GOSUMDB=off GOTOOLCHAIN=local
mkdir -p bin evidence replays
(cd instrument && go build -o ../bin/verif-instrument .)
echo "setup ok: $(go version)"
