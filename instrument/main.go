// verif-instrument rewrites a scratch copy of cedar-go so that the simulator owns
//   - every map iteration (for-range over a map, maps.Keys/Values/All), and
//   - a yield point at every function entry, loop iteration and non-local write.
//
// It never touches /repo: the check driver copies the working tree to a scratch
// directory first.  All edits are byte-offset insertions on existing lines, so the
// line numbers of the instrumented copy are those of the original.
//
// Exit status: 0 ok, 2 anything else (type errors, unsupported constructs).  A
// failure here is machinery trouble and must never be reported as a violation.
package main

import (
	"encoding/json"
	"flag"
	"fmt"
	"go/ast"
	"go/build"
	"go/importer"
	"go/parser"
	"go/token"
	"go/types"
	"os"
	"os/exec"
	"path/filepath"
	"sort"
	"strings"
)

type Site struct {
	ID   int    `json:"id"`
	Kind string `json:"kind"`
	Pkg  string `json:"pkg"`
	Func string `json:"func"`
	File string `json:"file"`
	Line int    `json:"line"`
	Expr string `json:"expr,omitempty"`
}

type edit struct {
	off  int
	seq  int
	del  int // bytes to delete at off (before inserting)
	text string
}

var (
	root     = flag.String("root", "", "root of the scratch copy of the module")
	sitesOut = flag.String("sites", "", "write site table (JSON) here")
	simPath  = flag.String("simpkg", "github.com/cedar-policy/cedar-go/internal/verifsim", "import path of the simulation kernel")
	noYield  = flag.Bool("noyield", false, "do not insert yield points")
)

var sites []Site

func die(format string, a ...any) {
	fmt.Fprintf(os.Stderr, "verif-instrument: "+format+"\n", a...)
	os.Exit(2)
}

func main() {
	flag.Parse()
	if *root == "" {
		die("-root required")
	}
	abs, err := filepath.Abs(*root)
	if err != nil {
		die("%v", err)
	}
	*root = abs
	if err := os.Chdir(*root); err != nil {
		die("%v", err)
	}
	out, err := exec.Command("go", "list", "-f", "{{.Dir}}\t{{.ImportPath}}", "./...").Output()
	if err != nil {
		die("go list: %v", err)
	}
	fset := token.NewFileSet()
	imp := importer.ForCompiler(fset, "source", nil).(types.ImporterFrom)
	var npk, nfiles int
	for _, line := range strings.Split(strings.TrimSpace(string(out)), "\n") {
		f := strings.Split(line, "\t")
		if len(f) != 2 {
			continue
		}
		dir, ipath := f[0], f[1]
		if strings.HasSuffix(ipath, "/internal/verifsim") || strings.Contains(ipath, "/verifharness") {
			continue
		}
		n := instrumentPackage(fset, imp, dir, ipath)
		if n > 0 {
			npk++
			nfiles += n
		}
	}
	if *sitesOut != "" {
		b, _ := json.Marshal(sites)
		if err := os.WriteFile(*sitesOut, b, 0o644); err != nil {
			die("%v", err)
		}
	}
	counts := map[string]int{}
	for _, s := range sites {
		counts[s.Kind]++
	}
	kinds := make([]string, 0, len(counts))
	for k := range counts {
		kinds = append(kinds, k)
	}
	sort.Strings(kinds)
	fmt.Printf("instrumented packages=%d files=%d sites=%d", npk, nfiles, len(sites))
	for _, k := range kinds {
		fmt.Printf(" %s=%d", k, counts[k])
	}
	fmt.Println()
}

func instrumentPackage(fset *token.FileSet, imp types.ImporterFrom, dir, ipath string) int {
	bp, err := build.Default.ImportDir(dir, 0)
	if err != nil {
		if _, ok := err.(*build.NoGoError); ok {
			return 0
		}
		die("%s: %v", dir, err)
	}
	if len(bp.GoFiles) == 0 {
		return 0
	}
	var files []*ast.File
	var srcs [][]byte
	var names []string
	for _, gf := range bp.GoFiles {
		if strings.HasPrefix(gf, "zz_verif_") {
			continue
		}
		fn := filepath.Join(dir, gf)
		src, err := os.ReadFile(fn)
		if err != nil {
			die("%v", err)
		}
		f, err := parser.ParseFile(fset, fn, src, parser.ParseComments|parser.SkipObjectResolution)
		if err != nil {
			die("parse %s: %v", fn, err)
		}
		files = append(files, f)
		srcs = append(srcs, src)
		names = append(names, fn)
	}
	info := &types.Info{
		Types: map[ast.Expr]types.TypeAndValue{},
		Defs:  map[*ast.Ident]types.Object{},
		Uses:  map[*ast.Ident]types.Object{},
	}
	var terrs []error
	conf := types.Config{
		Importer: importerFrom{imp, dir},
		Error:    func(err error) { terrs = append(terrs, err) },
	}
	pkg, _ := conf.Check(ipath, fset, files, info)
	if len(terrs) > 0 {
		for _, e := range terrs {
			fmt.Fprintln(os.Stderr, e)
		}
		die("type errors in %s", ipath)
	}
	for i, f := range files {
		rel, _ := filepath.Rel(*root, names[i])
		fi := &fileInstr{fset: fset, info: info, pkg: pkg, file: f, src: srcs[i], rel: rel, ipath: ipath}
		fi.run()
		if len(fi.edits) == 0 {
			continue
		}
		// import on the package line
		fi.insert(int(fset.Position(f.Name.End()).Offset), fmt.Sprintf("; import verifsim %q", *simPath))
		// keep "maps" used if we rewrote every use of it
		for local := range fi.mapsLocal {
			fi.tail += fmt.Sprintf("\nvar _ = %s.Clone[map[int]int]\n", local)
		}
		outSrc := fi.apply()
		if err := os.WriteFile(names[i], outSrc, 0o644); err != nil {
			die("%v", err)
		}
	}
	// globals registry
	var gl []string
	sc := pkg.Scope()
	for _, n := range sc.Names() {
		if v, ok := sc.Lookup(n).(*types.Var); ok && n != "_" {
			gl = append(gl, v.Name())
		}
	}
	var sb strings.Builder
	fmt.Fprintf(&sb, "// Code generated by verif-instrument. DO NOT EDIT.\n\npackage %s\n\nimport verifsim %q\n\nfunc init() {\n", pkg.Name(), *simPath)
	fmt.Fprintf(&sb, "\tverifsim.RegisterPackage(%q)\n", ipath)
	for _, g := range gl {
		fmt.Fprintf(&sb, "\tverifsim.RegisterGlobal(%q, &%s)\n", ipath+"."+g, g)
	}
	sb.WriteString("}\n")
	if err := os.WriteFile(filepath.Join(dir, "zz_verif_globals.go"), []byte(sb.String()), 0o644); err != nil {
		die("%v", err)
	}
	return len(files)
}

type importerFrom struct {
	imp types.ImporterFrom
	dir string
}

func (i importerFrom) Import(path string) (*types.Package, error) {
	return i.imp.ImportFrom(path, i.dir, 0)
}

type fileInstr struct {
	fset      *token.FileSet
	info      *types.Info
	pkg       *types.Package
	file      *ast.File
	src       []byte
	rel       string
	ipath     string
	edits     []edit
	tail      string
	mapsLocal map[string]bool
	funcs     []string // enclosing function names
}

func (fi *fileInstr) off(p token.Pos) int  { return fi.fset.Position(p).Offset }
func (fi *fileInstr) line(p token.Pos) int { return fi.fset.Position(p).Line }

func (fi *fileInstr) insert(off int, text string) {
	fi.edits = append(fi.edits, edit{off: off, seq: len(fi.edits), text: text})
}
func (fi *fileInstr) replace(off, n int, text string) {
	fi.edits = append(fi.edits, edit{off: off, seq: len(fi.edits), del: n, text: text})
}

func (fi *fileInstr) apply() []byte {
	sort.SliceStable(fi.edits, func(i, j int) bool {
		if fi.edits[i].off != fi.edits[j].off {
			return fi.edits[i].off < fi.edits[j].off
		}
		return fi.edits[i].seq < fi.edits[j].seq
	})
	var out []byte
	pos := 0
	for _, e := range fi.edits {
		if e.off < pos {
			die("%s: overlapping edits at offset %d", fi.rel, e.off)
		}
		out = append(out, fi.src[pos:e.off]...)
		out = append(out, e.text...)
		pos = e.off + e.del
	}
	out = append(out, fi.src[pos:]...)
	out = append(out, fi.tail...)
	return out
}

func (fi *fileInstr) curFunc() string {
	if len(fi.funcs) == 0 {
		return "<pkg>"
	}
	return fi.funcs[len(fi.funcs)-1]
}

func (fi *fileInstr) newSite(kind string, pos token.Pos, expr string) int {
	id := len(sites)
	sites = append(sites, Site{ID: id, Kind: kind, Pkg: fi.ipath, Func: fi.curFunc(), File: fi.rel, Line: fi.line(pos), Expr: expr})
	return id
}

func (fi *fileInstr) text(n ast.Node) string {
	return string(fi.src[fi.off(n.Pos()):fi.off(n.End())])
}

func isMap(t types.Type) (*types.Map, bool) {
	if t == nil {
		return nil, false
	}
	u := t.Underlying()
	if tp, ok := t.(*types.TypeParam); ok {
		// core type of the constraint
		u = coreType(tp)
		if u == nil {
			return nil, false
		}
	}
	m, ok := u.(*types.Map)
	return m, ok
}

func coreType(tp *types.TypeParam) types.Type {
	iface, ok := tp.Constraint().Underlying().(*types.Interface)
	if !ok {
		return nil
	}
	var core types.Type
	for i := 0; i < iface.NumEmbeddeds(); i++ {
		et := iface.EmbeddedType(i)
		var terms []*types.Term
		switch e := et.(type) {
		case *types.Union:
			for j := 0; j < e.Len(); j++ {
				terms = append(terms, e.Term(j))
			}
		default:
			terms = append(terms, types.NewTerm(false, et))
		}
		for _, t := range terms {
			u := t.Type().Underlying()
			if core == nil {
				core = u
			} else if !types.Identical(core, u) {
				return nil
			}
		}
	}
	return core
}

// keyOrderable reports whether the simulator can put keys of this type into a canonical order.
func keyOrderable(t types.Type, depth int) bool {
	if depth > 6 {
		return false
	}
	if _, ok := t.(*types.TypeParam); ok {
		return true // decided at run time (verifsim panics on an unsupported kind)
	}
	switch u := t.Underlying().(type) {
	case *types.Basic:
		return u.Info()&(types.IsString|types.IsInteger|types.IsBoolean) != 0
	case *types.Struct:
		for i := 0; i < u.NumFields(); i++ {
			if !keyOrderable(u.Field(i).Type(), depth+1) {
				return false
			}
		}
		return true
	case *types.Array:
		return keyOrderable(u.Elem(), depth+1)
	}
	return false
}

func (fi *fileInstr) funcName(d *ast.FuncDecl) string {
	if d.Recv != nil && len(d.Recv.List) == 1 {
		t := d.Recv.List[0].Type
		if s, ok := t.(*ast.StarExpr); ok {
			t = s.X
		}
		if ix, ok := t.(*ast.IndexExpr); ok {
			t = ix.X
		}
		if ix, ok := t.(*ast.IndexListExpr); ok {
			t = ix.X
		}
		if id, ok := t.(*ast.Ident); ok {
			return id.Name + "." + d.Name.Name
		}
	}
	return d.Name.Name
}

func (fi *fileInstr) run() {
	fi.mapsLocal = map[string]bool{}
	var stack []ast.Node
	ast.Inspect(fi.file, func(n ast.Node) bool {
		if n == nil {
			top := stack[len(stack)-1]
			stack = stack[:len(stack)-1]
			switch top.(type) {
			case *ast.FuncDecl, *ast.FuncLit:
				fi.funcs = fi.funcs[:len(fi.funcs)-1]
			}
			return true
		}
		var parent ast.Node
		if len(stack) > 0 {
			parent = stack[len(stack)-1]
		}
		stack = append(stack, n)
		switch v := n.(type) {
		case *ast.FuncDecl:
			fi.funcs = append(fi.funcs, fi.funcName(v))
			if v.Body != nil {
				fi.yieldAtBlockStart(v.Body, "yield-func")
			}
		case *ast.FuncLit:
			fi.funcs = append(fi.funcs, fi.curFunc()+".func")
			fi.yieldAtBlockStart(v.Body, "yield-func")
		case *ast.ForStmt:
			fi.yieldAtBlockStart(v.Body, "yield-loop")
		case *ast.RangeStmt:
			fi.yieldAtBlockStart(v.Body, "yield-loop")
			if tv, ok := fi.info.Types[v.X]; ok {
				if m, ok := isMap(tv.Type); ok {
					if !keyOrderable(m.Key(), 0) {
						die("%s:%d: range over map with key type %s: no canonical order available", fi.rel, fi.line(v.Pos()), m.Key())
					}
					id := fi.newSite("range", v.X.Pos(), fi.text(v.X))
					fi.insert(fi.off(v.X.Pos()), "verifsim.RangeMap(")
					fi.insert(fi.off(v.X.End()), fmt.Sprintf(", %d)", id))
				}
			}
		case *ast.CallExpr:
			if sel, ok := v.Fun.(*ast.SelectorExpr); ok {
				if id, ok := sel.X.(*ast.Ident); ok {
					if pn, ok := fi.info.Uses[id].(*types.PkgName); ok && pn.Imported().Path() == "maps" {
						var repl string
						switch sel.Sel.Name {
						case "Keys":
							repl = "MapsKeys"
						case "Values":
							repl = "MapsValues"
						case "All":
							repl = "MapsAll"
						}
						if repl != "" {
							if len(v.Args) != 1 || v.Ellipsis.IsValid() {
								die("%s:%d: unexpected maps.%s call shape", fi.rel, fi.line(v.Pos()), sel.Sel.Name)
							}
							tv := fi.info.Types[v.Args[0]]
							m, ok := isMap(tv.Type)
							if !ok || !keyOrderable(m.Key(), 0) {
								die("%s:%d: maps.%s over %s: no canonical order available", fi.rel, fi.line(v.Pos()), sel.Sel.Name, tv.Type)
							}
							sid := fi.newSite("maps."+sel.Sel.Name, v.Pos(), fi.text(v.Args[0]))
							fi.replace(fi.off(sel.Pos()), fi.off(sel.End())-fi.off(sel.Pos()), "verifsim."+repl)
							fi.insert(fi.off(v.Rparen), fmt.Sprintf(", %d", sid))
							fi.mapsLocal[id.Name] = true
						}
					}
				}
			}
		case *ast.SelectorExpr:
			// maps.Keys etc. used as a function value (not called) would escape the seam
			if id, ok := v.X.(*ast.Ident); ok {
				if pn, ok := fi.info.Uses[id].(*types.PkgName); ok && pn.Imported().Path() == "maps" {
					switch v.Sel.Name {
					case "Keys", "Values", "All":
						if ce, ok := parent.(*ast.CallExpr); !ok || ce.Fun != v {
							die("%s:%d: maps.%s used as a value", fi.rel, fi.line(v.Pos()), v.Sel.Name)
						}
					}
				}
			}
		case *ast.AssignStmt:
			if fi.inStmtList(parent, v) && fi.writesNonLocal(v.Lhs) {
				fi.yieldAfter(v, "yield-write")
			}
		case *ast.IncDecStmt:
			if fi.inStmtList(parent, v) && fi.writesNonLocal([]ast.Expr{v.X}) {
				fi.yieldAfter(v, "yield-write")
			}
		case *ast.ExprStmt:
			if ce, ok := v.X.(*ast.CallExpr); ok && fi.inStmtList(parent, v) {
				if id, ok := ce.Fun.(*ast.Ident); ok {
					if _, ok := fi.info.Uses[id].(*types.Builtin); ok {
						switch id.Name {
						case "copy", "delete", "clear":
							fi.yieldAfter(v, "yield-write")
						}
					}
				}
			}
		case *ast.GoStmt:
			// The library has no go statements today.  If a change adds one, the simulator
			// cannot own that goroutine's interleaving: it is marked as foreign at the spawn
			// site (the statement itself is left untouched) and verifsim ignores yield points
			// and map-iteration events that do not come from a goroutine it owns.
			if !fi.inStmtList(parent, v) {
				die("%s:%d: go statement outside a statement list", fi.rel, fi.line(v.Pos()))
			}
			id := fi.newSite("go-stmt", v.Pos(), "")
			fi.insert(fi.off(v.Pos()), fmt.Sprintf("verifsim.ForeignSpawn(%d); ", id))
		}
		return true
	})
}

func (fi *fileInstr) inStmtList(parent ast.Node, s ast.Stmt) bool {
	var list []ast.Stmt
	switch p := parent.(type) {
	case *ast.BlockStmt:
		list = p.List
	case *ast.CaseClause:
		list = p.Body
	case *ast.CommClause:
		list = p.Body
	default:
		return false
	}
	for _, x := range list {
		if x == s {
			return true
		}
	}
	return false
}

func (fi *fileInstr) writesNonLocal(lhs []ast.Expr) bool {
	for _, e := range lhs {
		switch x := e.(type) {
		case *ast.Ident:
			if x.Name == "_" {
				continue
			}
			obj := fi.info.Defs[x]
			if obj == nil {
				obj = fi.info.Uses[x]
			}
			if v, ok := obj.(*types.Var); ok {
				if v.Parent() == fi.pkg.Scope() {
					return true // package-level variable
				}
				continue // local
			}
		default:
			return true // field, index, dereference, ...
		}
	}
	return false
}

func (fi *fileInstr) yieldAtBlockStart(b *ast.BlockStmt, kind string) {
	if *noYield || b == nil {
		return
	}
	id := fi.newSite(kind, b.Lbrace, "")
	fi.insert(fi.off(b.Lbrace)+1, fmt.Sprintf("verifsim.Yield(%d);", id))
}

func (fi *fileInstr) yieldAfter(s ast.Stmt, kind string) {
	if *noYield {
		return
	}
	id := fi.newSite(kind, s.Pos(), "")
	fi.insert(fi.off(s.End()), fmt.Sprintf("; verifsim.Yield(%d)", id))
}
