module verifinstrument

go 1.23.0
