#!/usr/bin/env python3
# Regenerates MANIFEST.json from the table below (kept as a script so the file stays valid and consistent).
import json, sys
claimed = {
 "C11": dict(level="exploration", design="§4 C11", technique="deterministic simulation (history dimension only): seeded histories of constructor-input / accessor-output mutations over a heap of live values under owned map order, checked step by step against a reference model built from universe indices; collision-family sub-space enumerated",
   text="Seeded exploration of mutation histories (build from a buffer, mutate the buffer afterwards, mutate Slice()/Map() results, early-stopped iteration, JSON/Cedar round trips, nesting) on a universe built to collide in the internal hash; after every step every live value is compared with an index-based model (length, membership, equality laws, operators, decode(encode)); byte slices handed out by the library are held across steps, compared and scribbled on; deep twins (same model, different construction order at every level), alternative spellings of equal scalars, longs beyond 2^53 and a second collision family at the top of the hash range are part of the universe. All 4680 member sequences of length <= 4 over the 8-element collision family and all 7380 over the 9-element wrap-around family are enumerated each run. This is the thinnest use of the technique here: no fault kinds exist on this surface and none are pretended.",
   note="Trusted: the harness' model (scalar equality = same universe index), the evaluator for the operator cross-check. Sampling beyond the enumerated family."),
 "C19": dict(level="exploration", design="§4 C19", technique="deterministic simulation: cooperative seeded goroutine scheduler over statement-level yield points inserted into a scratch copy, reflection snapshots of shared inputs and all package-level variables before/during/after every read-only operation; auxiliary free-running run under the Go race detector (runtime monitoring, labelled)",
   text="Mode 1 decides 'inputs never mutated': every read-only operation runs alone with a deep reflection snapshot of all shared inputs and of every package-level variable compared before, at sampled yield points during, and after. Mode 2 decides 'returns what it would return alone': 2-4 tasks of read-only operations are interleaved by a seeded cooperative scheduler (real goroutines, one baton, every preemption from the schedule tape) and each result is compared with its solo result, the snapshot at every context switch. Mode 3 (auxiliary, not deterministic) runs the same workload free on all cores under -race.",
   note="Trusted: the soundness argument 'no write to shared inputs or globals => no race between read-only calls'; blind spots of the reflection walker (closure variables, runtime pools, same-value writes) are covered only by the race-detector mode, whose interleavings are not controlled. Statement-granularity interleaving under sequential consistency."),
 "C20": dict(level="exploration", design="§4 C20", technique="deterministic simulation (history dimension): seeded operation histories against a live PolicySet with marshal/unmarshal/load 'restarts' under owned map order, refinement-checked step by step against a plain map model; short histories enumerated",
   text="Seeded exploration of container histories (add/replace/remove/get/Map/All/collect/marshal/JSON and Cedar round trips that replace the live set/document loads) with a map model compared after every step: contents, return values, pointer identity, authorization on a request panel, lexicographic emission, ids policy0..n-1 with positions and file name after a load (documents of up to 139 statements), marshalled bytes held across steps, replacement during iteration, decoding into a non-empty set, ids that need JSON escaping. All 4680 histories of length <= 4 over 8 operations are enumerated each run.",
   note="Trusted: the map model, canonical policy text as the identity of a policy, cedar.Authorize over a PolicyMap as the reference for 'depends only on the contents'."),
 "C05": dict(level="fault_enumeration", design="§4 C05", technique="deterministic simulation: batch.Authorize under a simulated context (logical clock), failing/cancelling callback at every k, custom iterator and owned map order; oracle = the harness' own Cartesian enumeration + substitution + cedar.Authorize",
   text="For every generated scenario the batch authorizer is run fault-free against a brute-force reference (own enumeration of the product, own substitution, cedar.Authorize per element: exactly-once delivery, substituted request, decision, reason set), and then once for EVERY position k at which the callback fails (with plain errors and errors wrapping foreign context errors) or cancels the context, with the context cancelled before the call, and with cancellation at sampled instants of the logical clock (yield points inside partial evaluation). Fault positions of a scenario are enumerated, scenarios are sampled.",
   note="Trusted: cedar.Authorize as the reference for a concrete request (that is the property's definition), the harness' substitution and product loop, errors.Is for error identity. Relaxations: at most one callback may start after an asynchronous cancellation; nil accepted when cancellation happens at the last element."),
 "C14": dict(level="exploration", design="§4 C14", technique="deterministic simulation: every map-iteration event in an instrumented copy is ordered by a seeded schedule tape; differential comparison of all observables between the canonical and a tape-chosen schedule / insertion order; schedule minimised to the culprit iteration site",
   text="Seeded exploration of the schedule space Go's map randomisation creates: each scenario is observed under the canonical schedule and under a random per-event schedule (reverse, rotation, shuffle) with permuted insertion order, repetitions and a permuted custom iterator; decision, reason set, error set with messages, batch results, every encoding and every decode+re-encode must be equal. Direct checks inside each pass: the same request asked again / through another container gives the same answer, every object encodes to the same bytes again after it went through the other encoders, a loaded document and the same contents built with Add encode identically. 400 run seeds are re-executed in two further fresh processes and all observables compared (per-process state such as a random hash seed). The oracle is plain equality, so it cannot disagree with the implementation about semantics.",
   note="Trusted: that verifsim.RangeMap only produces orders Go allows; that the standard library leaks no map order (encoding/json and fmt sort keys). Not observed: validator/resolver messages, x/exp/dot. Equal values built in different orders may render differently (hash collisions); that is not demanded by the property and batch requests are therefore compared through the harness' canonical rendering."),
 "C18": dict(level="fault_enumeration", design="§4 C18", technique="deterministic simulation: seeded io.Reader chunking schedules + enumerated reader faults (every byte position x kind x follow-up), differential oracle against single-read decode and an independent position model",
   text="Seeded search over reader schedules (chunk sizes incl. 1 byte, splits inside runes/tokens/strings/comments, zero-length reads, data+EOF) on generated documents, plus, for sampled documents up to 400 bytes, enumeration of every byte position x fault kind (0-byte error, n-byte error, early EOF) x follow-up (sticky, then-EOF, transient), with several error values (plain, io.ErrUnexpectedEOF, wrapped, an error printing as EOF). Positions are also read from batch.Authorize diagnostics. Fault enumeration is the right level because the property quantifies over every failure position of a finite document; documents and chunkings are sampled.",
   note="Trusted: the harness' reader stub, its independent line/column model, Go's reflect.DeepEqual on ASTs. Sampling over documents and chunk schedules is not exhaustive; only the fault positions of a sampled document are."),
}
na = {
 "C01": "pure function of (expression, entities, request): no schedule, clock, fault or history enters it; deciding it needs a reference interpreter over inputs, not a simulator",
 "C02": "the decision table is a pure function of which policies are satisfied/erroring; its only schedule-like aspect (policy iteration order) is decided under C14",
 "C03": "reachability over a given parent graph (incl. termination on cycles) depends on the input graph only; nothing to schedule or inject",
 "C04": "folded-vs-unfolded agreement is program equivalence over inputs (translation validation territory); no nondeterminism or fault involved",
 "C06": "residual-vs-original agreement under all completions is a pure equivalence over programs x environments",
 "C07": "the text parser maps a byte slice to an AST; no seam (its only streaming entry point is decided under C18)",
 "C08": "render/re-parse round trip over byte slices; the stream Decoder is covered by C18 and Encoder adds a single Write call",
 "C09": "JSON codec round trip over byte slices; no schedule, fault or history",
 "C10": "totality over all byte strings is input fuzzing; []byte decoders meet no schedule or fault (the one stream decoder runs under reader schedules and failures in C18)",
 "C12": "parse/print exactness of scalar values is arithmetic on single inputs",
 "C13": "JSON round trip of values/entities over byte slices; pure",
 "C15": "validator soundness quantifies over schemas x policies x conforming data; pure functions, nothing to simulate",
 "C16": "termination/no-crash of schema resolution and validation is a function of the input schema alone; a step budget could detect a hang but there is nothing to schedule or inject",
 "C17": "schema codec round trips over byte slices (byte-stability across map orders is part of C14)",
}
pending = {}
for a in sys.argv[1:]:
    pass
checks = []
for pid, c in sorted(claimed.items()):
    checks.append({
        "property_id": pid,
        "quick_cmd": f"./check {pid} quick",
        "thorough_cmd": f"./check {pid} thorough",
        "evidence_file": f"/verif/evidence/{pid}.json",
        "replay_cmd_template": f"./check {pid} --replay {{path}}",
        "engine": "verifsim",
        "level_claimed": {"category": c["level"], "text": c["text"], "design_ref": c["design"]},
        "level_note": c["note"],
        "technique": c["technique"],
    })
allp = [json.loads(l)["id"] for l in open("/verif/properties.jsonl")]
napp = []
for pid in allp:
    if pid in claimed: continue
    if pid in na:
        napp.append({"property_id": pid, "reason": "deterministic simulation not applicable: " + na[pid]})
    else:
        napp.append({"property_id": pid, "reason": "claimed in DESIGN.md; check under construction in this session (not yet registered)"})
m = {
 "version": 1,
 "setup_cmd": "cd /verif && ./setup.sh",
 "hooks": {
   "guard": "none (no hooks in /repo: each check instruments a scratch copy of the working tree; see DESIGN.md §2)",
   "enable": "./check copies /repo to a scratch directory, rewrites map iterations and inserts yield points there (instrument/), adds sim/ and harness/ to the copy and builds one binary; VERIF_PATCH=<file> applies a patch to the scratch copy only",
   "baseline_off_cmd": "cd /repo && go test -mod=mod -vet=off -count=1 -timeout 25m ./...",
   "source_commits": [],
   "add_only": True,
 },
 "engines": [{"name": "verifsim", "path": "/verif/sim + /verif/instrument + /verif/harness", "serves_properties": sorted(claimed), "kind_free_text": "deterministic simulator written for this task: seeded choice tapes, owned map-iteration order, logical clock from inserted yield points, cooperative goroutine scheduler, simulated reader/context/callback, reflection snapshots, tape minimiser, replay files"}],
 "checks": checks,
 "not_applicable": napp,
 "notes": "See DESIGN.md. Exit 2 from a check means machinery/build trouble, never a violation. Known findings: /verif/known-findings.json.",
}
json.dump(m, open("/verif/MANIFEST.json", "w"), indent=1)
print("claimed:", sorted(claimed), "not_applicable:", len(napp))
