#!/bin/bash
# Sensitivity self-test: every patch in /verif/mutants/<prop>-*.patch is a change that breaks
# one claimed property.  Each is applied to a scratch copy only (VERIF_PATCH), the quick
# check of that property must report a violation.  Usage: selftest-mutants.sh [glob] [--tests]
# With --tests the repository's own unit tests are also run on the mutated copy and the
# outcome is reported (a realistic mutant passes them).
set -u
cd "$(dirname "$0")"
GLOB="${1:-*}"; TESTS=0; [ "${2:-}" = --tests ] && TESTS=1
export GOFLAGS=-mod=mod GOPROXY=off GOSUMDB=off GOTOOLCHAIN=local
missed=0; total=0
for m in mutants/$GLOB.patch; do
  [ -f "$m" ] || continue
  prop="$(basename "$m" | cut -d- -f1 | tr a-z A-Z)"
  total=$((total+1))
  tests="-"
  if [ $TESTS = 1 ]; then
    T="$(mktemp -d /tmp/verif-mut.XXXXXX)"; rsync -a --exclude .git /repo/ "$T"/; (cd "$T" && patch -p1 -s < "/verif/$m" && go build ./... && go test -vet=off -count=1 ./... >/dev/null 2>&1) && tests=pass || tests=FAIL; rm -rf "$T"
  fi
  RUNS=(-runs "${MUT_RUNS:-400}")
  [ "$prop" = C05 ] && RUNS=()   # C05 runs are cheap: use the full quick count (its rarer triggers need it)
  out="$(VERIF_PATCH="$PWD/$m" VERIF_RACE_BUDGET_S=5 ./check "$prop" quick -no-evidence "${RUNS[@]}" 2>&1)"; rc=$?
  kinds="$(echo "$out" | grep -o 'kind=[^ ]*' | sort -u | tr '\n' ' ')"
  if [ $rc = 1 ]; then echo "CAUGHT  $m  (unit tests: $tests)  $kinds"; else echo "MISSED  $m  rc=$rc (unit tests: $tests)"; missed=$((missed+1)); echo "$out" | tail -3; fi
done
echo "mutants: $total, missed: $missed"
[ $missed = 0 ]
